#!/venv/bin/python
"""Launcher: fixes the interpreter environment (hash seed, import path from /repo working tree) and runs sim.cli."""
import os
import sys

HERE = os.path.dirname(os.path.abspath(__file__))
REPO = os.environ.get('PFST_REPO', '/repo')

if os.environ.get('PYTHONHASHSEED') is None or (os.environ.get('PFST_VERIF_CHILD') != '1'):
    env = dict(os.environ)
    env.setdefault('PYTHONHASHSEED', '0')
    env['PFST_VERIF_CHILD'] = '1'
    env['PYTHONDONTWRITEBYTECODE'] = '1'
    env['PFST_VERIF'] = '1'
    os.execve(sys.executable, [sys.executable, os.path.abspath(__file__)] + sys.argv[1:], env)

sys.path.insert(0, os.path.join(REPO, 'src'))
sys.path.insert(0, HERE)
sys.setrecursionlimit(3000)
import warnings  # noqa: E402
warnings.filterwarnings("ignore", category=SyntaxWarning)

from sim.cli import main  # noqa: E402

sys.exit(main())
