#!/bin/bash
# usage: tools/sweep_all.sh FIRST_SEED LAST_SEED [scale]  -- triage sweep of every property at (scale x) its quick size; prints unlisted classes only
a=$1; b=$2; scale=${3:-1}
cd "$(dirname "$0")/.."
for p in C01 C02 C03 C04 C07 C08 C10 C11 C12 C13 C15 C17 C18 C20; do
  n=$(/venv/bin/python -c "import sys; sys.path.insert(0,'.'); from sim.specs import SPECS; print(int(SPECS['$p']['quick']*$scale))")
  echo "######## $p runs=$n seeds $a..$b"
  tools/sweep.py $p $a $b $n
done
