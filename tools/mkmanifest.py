#!/venv/bin/python
"""Regenerate /verif/MANIFEST.json from sim/specs.py (single source of truth for check registrations)."""
import json
import os
import sys

HERE = os.path.dirname(os.path.dirname(os.path.abspath(__file__)))
sys.path.insert(0, HERE)
from sim.specs import SPECS, NOT_APPLICABLE, ENGINES, LEVEL_TEXT  # noqa: E402

checks = []
for pid in sorted(SPECS):
    s = SPECS[pid]
    checks.append({
        'property_id': pid,
        'quick_cmd': f'/venv/bin/python check.py {pid} --tier quick',
        'thorough_cmd': f'/venv/bin/python check.py {pid} --tier thorough',
        'evidence_file': f'evidence/{pid}.json',
        'replay_cmd_template': f'/venv/bin/python check.py {pid} --replay {{path}}',
        'engine': s['engine'],
        'level_claimed': {'category': s['level'], 'text': LEVEL_TEXT[pid], 'design_ref': f'DESIGN.md section 3 / {pid}'},
        'level_note': '; '.join(s['assumptions']),
        'technique': s.get('technique', 'deterministic simulation: seeded search over histories/schedules/fault sequences against a reference model'),
    })

m = {
    'version': 1,
    'setup_cmd': "/venv/bin/python -c \"import sys; sys.path.insert(0, '/repo/src'); import fst, ast, tokenize; print('pfst importable from /repo/src; nothing to build')\"",
    'hooks': {
        'guard': 'PFST_VERIF',
        'enable': 'no source hooks exist: checks import pfst from /repo/src (working tree) and reach every seam from outside (generator yields, sys.settrace, class-attribute wrappers); check.py sets PFST_VERIF=1 which the library does not read',
        'baseline_off_cmd': 'cd /repo && /venv/bin/python -m pytest -ra -q -p no:cacheprovider --timeout=900 --continue-on-collection-errors',
        'source_commits': [],
        'add_only': True,
    },
    'engines': ENGINES,
    'checks': checks,
    'not_applicable': NOT_APPLICABLE,
    'notes': 'All checks: cwd=/verif; honour VERIF_SEED and VERIF_TIER; exit 0 clean / 1 with VIOLATION line / 2 harness error. Known findings: known_findings.json. See DESIGN.md.',
}
with open(os.path.join(HERE, 'MANIFEST.json'), 'w') as f:
    json.dump(m, f, indent=1)
print('wrote MANIFEST.json with', len(checks), 'checks')
