#!/venv/bin/python
"""Developer tool: find the first violation whose signature matches, minimise it and record it as an open known finding.
usage: tools/capture_kf.py PROP ID RUNS 'SIGNATURE-JSON' 'WHAT'   (run through check.py's environment: PYTHONHASHSEED=0)"""
import json
import os
import sys

HERE = os.path.dirname(os.path.dirname(os.path.abspath(__file__)))
sys.path.insert(0, os.path.join(os.environ.get('PFST_REPO', '/repo'), 'src'))
sys.path.insert(0, HERE)
import warnings  # noqa: E402
warnings.filterwarnings('ignore', category=SyntaxWarning)
from sim import core  # noqa: E402
from sim.cli import minimise, signature  # noqa: E402
from sim.specs import SPECS  # noqa: E402

prop, kid, runs, sig_json, what = sys.argv[1], sys.argv[2], int(sys.argv[3]), sys.argv[4], sys.argv[5]
want = json.loads(sig_json)
spec = SPECS[prop]
seed = int(os.environ.get('VERIF_SEED', '0'))
results, _ = core.run_batch(spec['mod'], 'engine_run', prop, seed, spec['engine'], runs, extra=spec.get('extra'), stop_on_violations=10 ** 9)
entry = {'id': kid, 'property': prop, 'status': 'open', 'what': what, 'replay': f'known/{kid}.json', 'signature': want}
for r in results:
    if not r.get('violation'):
        continue
    case = dict(r['case'], property=prop, verif_seed=seed, index=r['i'])
    if core.match_known(prop, signature(spec, case), [entry]) is None:
        continue
    case = minimise(spec, case)
    if core.match_known(prop, signature(spec, case), [entry]) is None:
        continue
    case.pop('verif_seed', None)
    case.pop('index', None)
    with open(os.path.join(HERE, 'known', kid + '.json'), 'w') as f:
        json.dump(case, f, indent=1)
    d = json.load(open(core.KNOWN))
    d['findings'] = [x for x in d['findings'] if x['id'] != kid] + [entry]
    json.dump(d, open(core.KNOWN, 'w'), indent=1)
    print('captured', kid, json.dumps(case.get('ops') or case.get('rounds') or case.get('schedule'))[:400])
    print(case['program'])
    print(case['violation']['kind'], case['violation']['detail'][:300])
    sys.exit(0)
print('no matching violation found')
sys.exit(1)
