#!/venv/bin/python
"""usage: tools/mktable.py  -- print the DESIGN 9.2 table (tier sizes, quick wall time, runs/hour, faults fired) from /verif/evidence/*.json"""
import json
import os
import sys
HERE = os.path.dirname(os.path.dirname(os.path.abspath(__file__)))
sys.path.insert(0, HERE)
from sim.specs import SPECS
print('| id | engine | quick runs | quick wall | thorough runs | runs/hour (quick) | distinct event logs / op tuples | faults and rare actions actually fired in the quick batch |')
print('|---|---|---|---|---|---|---|---|')
for p in sorted(SPECS):
    sp = SPECS[p]
    try:
        ev = json.load(open(os.path.join(HERE, 'evidence', p + '.json')))
    except Exception:
        continue
    c = ev['coverage']
    fk = c.get('fault_kinds_fired') or {}
    cnt = c.get('counters') or {}
    extra = {k: v for k, v in cnt.items() if k.startswith(('fault_', 'op_rawnone', 'op_offset', 'op_par', 'op_unpar', 'battery', 'explicit_twin', 'query_bursts', 'mb_prefixed', 'late_fail'))}
    items = list(fk.items()) + [(k, v) for k, v in extra.items() if k not in fk]
    ftxt = ', '.join(f'{k} {v}' for k, v in sorted(items)[:14]) or '-'
    print(f"| {p} | {sp['engine']} | {sp['quick']:,} | {ev['wall_s']:.0f} s | {sp['thorough']:,} | {c.get('runs_per_hour', 0) / 1e6:.1f} M | "
          f"{c.get('distinct_event_logs')} / {c.get('distinct_op_tuples')} | {ftxt} |")
