#!/bin/bash
# usage: tools/run_tier.sh <tier> [props...]  -- run the registered commands of a tier one after the other, print a one-line result each
tier=$1; shift
props=${@:-C01 C02 C03 C04 C07 C08 C10 C11 C12 C13 C15 C17 C18 C20}
cd "$(dirname "$0")/.."
for p in $props; do
  s=$(date +%s); out=$(/venv/bin/python check.py $p --tier $tier 2>&1); rc=$?; e=$(date +%s)
  echo "[$p] tier=$tier rc=$rc $((e-s))s | $(echo "$out" | grep -c '^KNOWN-FINDING') KF | $(echo "$out" | tail -1 | cut -c1-260)"
  echo "$out" | grep -A2 "^VIOLATION\|HARNESS" | cut -c1-1200 | head -30
done
