#!/venv/bin/python
"""usage: tools/showreplay.py FILE...  -- print program / ops / violation / signature of replay files"""
import json
import sys
for fn in sys.argv[1:]:
    c = json.load(open(fn))
    print('=' * 30, fn)
    print(c.get('program'))
    for k in ('ops', 'rounds', 'parties', 'schedule', 'request', 'scripts'):
        if k in c:
            print(k.upper() + ':', json.dumps(c[k], ensure_ascii=False)[:3000])
    print('VIOLATION:', json.dumps(c.get('violation'), ensure_ascii=False)[:2500])
    print('SIGNATURE:', json.dumps(c.get('signature')))
