#!/bin/bash
# usage: tools/seedcheck.sh <patch.diff> <prop> [<prop> ...]   -- apply a seeded change to /repo, run the quick checks, undo it
patch=$1; shift
git -C /repo apply "$patch" || exit 3
trap 'git -C /repo checkout -- .' EXIT
for p in "$@"; do
  s=$(date +%s)
  out=$(/verif/check.py $p --tier quick 2>&1); rc=$?
  e=$(date +%s)
  echo "[$p] rc=$rc time=$((e-s))s $(echo "$out" | grep -c '^VIOLATION') violation line(s)"
  echo "$out" | grep -A1 '^VIOLATION' | cut -c1-400 | head -8
done
