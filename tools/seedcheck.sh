#!/bin/bash
# usage: tools/seedcheck.sh <patch.diff> <prop> [<prop> ...]   -- apply a seeded change to /repo, run the quick checks, undo it
# (evidence and replay files of these runs go to a scratch directory, not to /verif/evidence)
patch=$1; shift
scratch=$(mktemp -d /tmp/seedcheck.XXXXXX)
git -C /repo apply "$patch" || exit 3
trap 'git -C /repo checkout -- .; rm -rf "$scratch"' EXIT
export PFST_VERIF_EVIDENCE=$scratch/evidence PFST_VERIF_REPLAYS=$scratch/replays
for p in "$@"; do
  s=$(date +%s)
  out=$(/verif/check.py $p --tier quick 2>&1); rc=$?
  e=$(date +%s)
  echo "[$p] rc=$rc time=$((e-s))s $(echo "$out" | grep -c '^VIOLATION') violation line(s)"
  echo "$out" | grep -A1 "^VIOLATION\|HARNESS ERROR" | cut -c1-400 | head -10
done
