#!/venv/bin/python
"""Developer tool: triage sweep over several VERIF_SEEDs; prints only violation classes NOT covered by known findings.
usage: tools/sweep.py PROP FIRST_SEED LAST_SEED RUNS"""
import json
import os
import subprocess
import sys

HERE = os.path.dirname(os.path.dirname(os.path.abspath(__file__)))
prop, a, b, runs = sys.argv[1], int(sys.argv[2]), int(sys.argv[3]), sys.argv[4]
for seed in range(a, b + 1):
    env = dict(os.environ, VERIF_SEED=str(seed))
    p = subprocess.run([os.path.join(HERE, 'check.py'), prop, '--triage', runs], capture_output=True, text=True, env=env)
    out = p.stdout + p.stderr
    head = [l for l in out.splitlines() if l.startswith('runs=')]
    print(f'### seed {seed}:', head[0] if head else 'NO SUMMARY', flush=True)
    for blk in out.split('=' * 100)[1:]:
        lines = blk.strip().split('\n')
        if '"KNOWN"' in lines[0]:
            continue
        print('\n'.join(lines)[:2500], flush=True)
        print('-' * 60, flush=True)
    for l in out.splitlines():
        if l.startswith(('ERROR', 'TIMEOUT', 'Traceback')):
            print(l, flush=True)
