#!/venv/bin/python
"""usage: PYTHONHASHSEED=0 tools/runidx.py PROP INDEX [VERIF_SEED] [--min]  -- execute one run index, print its case (optionally minimised)"""
import json
import os
import sys
HERE = os.path.dirname(os.path.dirname(os.path.abspath(__file__)))
sys.path.insert(0, os.path.join(os.environ.get('PFST_REPO', '/repo'), 'src'))
sys.path.insert(0, HERE)
sys.setrecursionlimit(3000)
import warnings
warnings.filterwarnings('ignore', category=SyntaxWarning)
from sim import cli, core
from sim.specs import SPECS

prop, idx = sys.argv[1], int(sys.argv[2])
vs = int(sys.argv[3]) if len(sys.argv) > 3 and sys.argv[3].isdigit() else 0
spec = SPECS[prop]
mod = cli._engine(spec)
r = core.run_one(mod.engine_run, prop, vs, spec['engine'], idx, keep_case=True, extra=spec.get('extra'))
if r.get('error'):
    print(r['error'])
case = dict(r['case'] or {}, property=prop, verif_seed=vs, index=idx)
if '--min' in sys.argv and r.get('violation'):
    case = cli.minimise(spec, case)
print('PROGRAM:\n' + (case.get('program') or ''))
for k in ('programs', 'ops', 'rounds', 'parties', 'schedule', 'scripts', 'request'):
    if k in case and k != 'program':
        print(k.upper() + ':', json.dumps(case[k], ensure_ascii=False)[:4000])
print('VIOLATION:', json.dumps(case.get('violation'), ensure_ascii=False, default=repr)[:3000])
if r.get('violation'):
    print('SIGNATURE:', json.dumps(cli.signature(spec, case), default=repr))
    if '--save' in sys.argv:
        print(core.write_replay(case))
