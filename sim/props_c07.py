"""C07 - copying never disturbs the tree; extraction is faithful and loses nothing."""

import ast
import re

from . import ops as O
from .editsim import Plugin, StopRun, Violation, check_consistent, modifying_registry, plugin
from .model import fdump, is_unique_kind, resolve, sdump, unique_tokens

_ctx = re.compile(r', ctx=(Load|Store|Del)\(\)|ctx=(Load|Store|Del)\(\), |ctx=(Load|Store|Del)\(\)')


def ndump(node):
    """Structure dump with expression contexts and Constant.kind removed and whitespace after newlines inside
    DOCSTRING-like string constants (str value of an expression statement, or the dumped node itself) neutralised
    (documented docstring re-indentation; bytes and strings elsewhere are exact).  Does not copy or mutate the node."""
    out = []
    if isinstance(node, (ast.Expression, ast.Interactive)) and isinstance(node.body, ast.Constant):
        node = node.body
    _nd(node, out, False, isinstance(node, ast.Constant))
    return ''.join(out)


def ndump_ml(node):
    """ndump in which, additionally, the indentation-dependent whitespace of DOCSTRING-like strings is neutralised
    (whitespace after a newline, runs of blanks where a backslash-newline inside the quotes continues the string): a
    str Constant that is the value of an expression statement - pfst's default `docstr=True` documents that the physical
    continuation lines of such strings are re-indented with their block - or that is itself the node being dumped (the
    extracted value of such a statement).  bytes and strings in any other position are compared exactly."""
    out = []
    if isinstance(node, (ast.Expression, ast.Interactive)) and isinstance(node.body, ast.Constant):
        node = node.body
    _nd(node, out, True, isinstance(node, ast.Constant))
    return ''.join(out)


def _nd(node, out, ml=False, doc=False):
    if doc and isinstance(node, ast.Constant) and isinstance(node.value, str):
        # by value, not by position: the same string may be multi-line on one side of a comparison and unparsed onto one
        # line (exact value kept) on the other
        v = re.sub(r'\n[ \t]*', '\n', node.value)
        if ml:
            v = re.sub(r'[ \t]{2,}', ' ', v)
        out.append('Constant(value=' + repr(v) + ', )')
        return
    if isinstance(node, ast.AST):
        if isinstance(node, ast.expr_context):
            return
        out.append(node.__class__.__name__ + '(')
        for f in node._fields:
            if f in ('ctx', 'kind', 'type_comment'):
                continue
            v = getattr(node, f, None)
            out.append(f + '=')
            _nd(v, out, ml, f == 'value' and isinstance(node, ast.Expr))
            out.append(', ')
        out.append(')')
    elif isinstance(node, list):
        out.append('[')
        for x in node:
            _nd(x, out, ml)
            out.append(', ')
        out.append(']')
    else:
        out.append(repr(node))


def _comments(src):
    """Comment tokens (right-stripped) of a text, tokenized line-tolerantly; None if it cannot be tokenized."""
    import io
    import tokenize
    out = []
    try:
        for t in tokenize.generate_tokens(io.StringIO(src).readline):
            if t.type == tokenize.COMMENT:
                out.append(t.string.rstrip())
    except (tokenize.TokenError, SyntaxError, IndentationError):
        return None
    return out


def parse_standalone(ret):
    """Parse ret.src on its own with harness wrappers; returns a pure AST comparable with ret.a, or None."""
    src = ret.src
    a = ret.a
    try:
        if isinstance(a, ast.Module):
            return ast.parse(src)
        if isinstance(a, ast.stmt):
            m = ast.parse(src)
            return m.body[0] if len(m.body) == 1 else None
        if isinstance(a, ast.expr):
            if isinstance(a, ast.Slice):
                return ast.parse('x[' + src + '\n]', mode='eval').body.slice
            if isinstance(a, ast.Starred):
                return ast.parse('[' + src + '\n]', mode='eval').body.elts[0]
            try:
                return ast.parse('(' + src + '\n)', mode='eval').body
            except SyntaxError:
                if isinstance(a, ast.Tuple):
                    t = ast.parse('x[' + src + '\n]', mode='eval').body.slice
                    return t
                return None
    except (SyntaxError, ValueError, IndexError):
        return 'unparsable'
    return None


READ_KINDS = ['copy', 'get', 'get_slice', 'view_copy', 'cut_vs_copy']


@plugin
class C07(Plugin):
    prop = 'C07'
    n_steps = (2, 8)

    def configure(self, rng):
        cfg = super().configure(rng)
        cfg['unique'] = rng.random() < 0.6
        cfg['p_edit'] = rng.choice([0.2, 0.4])
        cfg['p_qcheck'] = rng.choice([0.0, 0.3, 1.0])
        cfg['opt_allow'] = ['trivia', 'pars', 'norm', 'norm_get', 'docstr', 'pars_walrus', 'pars_arglike', 'pep8space', 'set_norm']
        cfg['max_lines'] = 40
        return cfg

    def extra_sig(self):
        return {'predicates': sorted(getattr(self, 'last_P', ()))}

    def read_opts(self, rng):
        o = {}
        if rng.random() < 0.5:
            table = {'trivia': O.TRIVIA_VALUES, 'pars': [True, 'auto', False], 'norm_get': [None, True, False],
                     'docstr': [True, False, 'strict'], 'pars_walrus': [True, False, None], 'pars_arglike': [True, False, None],
                     'set_norm': ['star', 'call'], 'norm': [True, False]}
            for k in sorted(table):
                if rng.random() < 0.2:
                    o[k] = rng.choice(table[k])
        return O.enc_opts(o)

    def gen_op(self, rng):
        run = self.run
        tree = run.root.a
        if rng.random() < run.cfg['p_edit']:
            return O.gen_edit(rng, tree, run.cfg)
        kind = rng.choice(READ_KINDS)
        nodes = O.all_nodes(tree)
        if not nodes:
            return None
        opts = self.read_opts(rng)
        if kind == 'copy':
            path = rng.choice(nodes)[0] if rng.random() < 0.95 else ()
            op = {'k': 'copy', 'path': [list(p) for p in path], 'opts': opts}
            if not path:
                op['whole'] = rng.choice([True, False])
            return op
        if kind == 'cut_vs_copy':
            if rng.random() < 0.5:
                path = rng.choice(nodes)[0]
                return {'k': 'cut_vs_copy', 'path': [list(p) for p in path], 'opts': opts, 'what': 'node'}
        conts = [((), tree, None, None, None)] + nodes
        lconts = []
        for path, node, _, _, _ in conts:
            for f in O.list_fields(node):
                if f != 'type_ignores':
                    lconts.append((path, node, f, len(getattr(node, f))))
            for f in O.VIRTUAL_FIELDS.get(node.__class__, ()):
                lconts.append((path, node, f, O.virtual_len(node, f)))
        if kind == 'get':
            path, node, _, _, _ = rng.choice(conts)
            fields = [f for f in node._fields if f not in ('ctx', 'type_ignores')]
            if not fields:
                return None
            f = rng.choice(fields)
            op = {'k': 'get', 'path': [list(p) for p in path], 'field': f, 'opts': opts}
            v = getattr(node, f, None)
            if isinstance(v, list):
                if rng.random() < 0.7:
                    op['idx'] = O.gen_index(rng, len(v), 0.05)
                else:
                    op['idx'], op['stop'] = O.gen_bounds(rng, len(v), 0.1)
            return op
        if not lconts:
            return None
        focus = run.cfg.get('focus_cls')
        if focus and rng.random() < 0.7:
            lconts = [t for t in lconts if t[1].__class__.__name__ == focus and (run.cfg.get('focus_field') in (None, t[2]) or rng.random() < 0.3)] or lconts
        path, node, f, n = rng.choice(lconts)
        a, b = O.gen_bounds(rng, n, 0.1)
        if n >= 2 and rng.random() < 0.3:
            # separator edge cases: everything but one element, the first or the last element alone
            a, b = rng.choice([(0, n - 1), (1, n), (0, 1), (n - 1, n)])
        if kind == 'cut_vs_copy':
            return {'k': 'cut_vs_copy', 'path': [list(p) for p in path], 'field': f, 'start': a, 'stop': b, 'opts': opts,
                    'what': 'slice'}
        if kind == 'view_copy':
            return {'k': 'view_copy', 'path': [list(p) for p in path], 'field': f,
                    'start': None if a == 'end' else a, 'stop': None if b == 'end' else b, 'opts': opts}
        return {'k': 'get_slice', 'path': [list(p) for p in path], 'field': f, 'start': a, 'stop': b, 'opts': opts}

    # -- application --------------------------------------------------------------------------------------------------

    def read(self, root, op, cut=False):
        f = O.resolve_f(root, op['path'])
        opts = O.dec_opts(op.get('opts'))
        k = op['k']
        if k == 'copy' or (k == 'cut_vs_copy' and op['what'] == 'node'):
            if cut:
                return f.cut(**opts)
            if 'whole' in op:
                return f.copy(whole=op['whole'], **opts)
            return f.copy(**opts)
        if k == 'get':
            if 'stop' in op:
                return f.get(op['idx'], op['stop'], op['field'], cut=cut, **opts)
            if 'idx' in op:
                return f.get(op['idx'], field=op['field'], cut=cut, **opts)
            return f.get(field=op['field'], cut=cut, **opts)
        if k in ('get_slice', 'cut_vs_copy'):
            return f.get_slice(op['start'], op['stop'], op['field'], cut=cut, **opts)
        if k == 'view_copy':
            v = getattr(f, op['field'])
            if not hasattr(v, '_base_indices'):
                raise O.Skip('notview')
            sub = v[op['start']:op['stop']]
            return sub.cut(**opts) if cut else sub.copy(**opts)
        raise O.Skip('kind')

    def delete(self, root, op):
        f = O.resolve_f(root, op['path'])
        opts = O.dec_opts(op.get('opts'))
        opts.pop('norm_get', None)
        if op['what'] == 'node':
            return f.remove(**opts)
        return f.put_slice(None, op['start'], op['stop'], op['field'], **opts)

    def apply(self, op):
        k = op['k']
        if k in ('copy', 'get', 'get_slice', 'view_copy'):
            return self.read(self.run.root, op)
        if k == 'cut_vs_copy':
            return self.read(self.run.root, op, cut=True)
        return super().apply(op)

    def pre_op(self, op):
        run = self.run
        k = op['k']
        if k not in READ_KINDS:
            return None
        ctx = {'src': run.root.src, 'dump': fdump(run.root.a)}
        if run.cfg['p_qcheck'] and (run.step * 31 % 10) / 10 < run.cfg['p_qcheck']:
            from . import queries
            ctx['q'] = queries.query_tree(run.root, 1)
        if k == 'cut_vs_copy':
            try:
                from .props_c04 import Pre, family_flags
                cop = {'k': 'cut', 'path': op['path']} if op['what'] == 'node' else \
                    {'k': 'cut_slice', 'path': op['path'], 'field': op['field'], 'start': op['start'], 'stop': op['stop']}
                self.last_P = family_flags(Pre(ctx['src']), cop)
            except Exception:
                self.last_P = set()
        # original elements (pure AST, pre-state) for faithfulness
        tree = ast.parse(ctx['src'])
        node = resolve(tree, [tuple(p) for p in op['path']])
        ctx['orig'] = None
        pp = [tuple(p) for p in op['path']]
        anc = [resolve(tree, pp[:i]) for i in range(len(pp) + 1)]
        ctx['in_fstr'] = any(isinstance(x, (ast.JoinedStr, ast.FormattedValue)) for x in anc)
        if node is not None:
            if k == 'copy' or (k == 'cut_vs_copy' and op['what'] == 'node'):
                ctx['orig'] = ('node', node)
            elif k == 'get' and 'idx' not in op:
                v = getattr(node, op['field'] or O.default_field(node) or '', None) if (op['field'] or O.default_field(node)) else None
                if isinstance(v, ast.AST):
                    ctx['orig'] = ('node', v)
            elif k == 'get' and 'stop' not in op:
                v = getattr(node, op['field'] or O.default_field(node) or '', None) if (op['field'] or O.default_field(node)) else None
                i = op['idx']
                if isinstance(v, list) and isinstance(i, int) and -len(v) <= i < len(v) and isinstance(v[i], ast.AST):
                    ctx['orig'] = ('node', v[i])
            else:
                fld = op.get('field') or O.default_field(node)
                v = getattr(node, fld, None) if fld and not fld.startswith('_') else None
                if isinstance(v, list) and all(isinstance(x, ast.AST) for x in v):
                    from .props_c03 import norm_slice
                    a = op.get('start', op.get('idx', 0))
                    b = op.get('stop', 'end')
                    ns = norm_slice(len(v), 0 if a is None else a, 'end' if b is None else b)
                    if ns is not None:
                        ctx['orig'] = ('list', v[ns[0]:ns[1]], node.__class__.__name__)
        return ctx

    def post_op(self, op, ctx, out):
        import fst
        run = self.run
        k = op['k']
        if ctx is None:  # plain edit in the history
            if out[0] == 'ok':
                run.core_after_ok(False)
            elif out[0] == 'exc' and (check_consistent(run.root) is not None or modifying_registry()):
                run.stats['collateral_c12'] += 1
                raise StopRun()
            return
        if out[0] == 'skip':
            return
        root = run.root
        if k != 'cut_vs_copy':
            run.stats['read_ops'] += 1
            # (1) read op leaves the tree bit-identical - also when it raises
            if root.src != ctx['src']:
                raise Violation('read_changed_source', f'{k}: before={ctx["src"][:400]!r} after={root.src[:400]!r}')
            d = fdump(root.a)
            if d != ctx['dump']:
                from .editsim import _first_diff
                raise Violation('read_changed_tree', f'{k}: ' + _first_diff(ctx['dump'], d))
            if modifying_registry():
                raise Violation('read_left_lock', k)
            if 'q' in ctx:
                from . import queries
                q2 = queries.query_tree(root, 1)
                if q2 != ctx['q']:
                    raise Violation('read_changed_query_answers', repr(queries.diff(ctx['q'], q2))[:800])
                run.stats['query_checks'] += 1
            if out[0] == 'exc':
                run.stats['read_raised'] += 1
                return
            self.check_piece(out[1], ctx, op)
            return
        # cut_vs_copy: main tree was cut.  forks: copy + delete on fresh trees of the pre-state
        if out[0] == 'exc':
            run.stats['cut_raised'] += 1
            if root.src != ctx['src'] or fdump(root.a) != ctx['dump'] or modifying_registry():
                run.stats['collateral_c12'] += 1
                raise StopRun()
            return
        if check_consistent(root) is not None:
            # the cut left a tree that does not agree with its source.  Normally that is C01's business (collateral), but if
            # DELETING the same range on a fresh tree leaves a consistent tree, then the cut did not leave what the delete
            # leaves - which is this property's own clause
            fork = fst.FST(ctx['src'], 'exec')
            try:
                self.delete(fork, op)
                ok = check_consistent(fork) is None
            except Exception:
                ok = False
            if ok and fork.src != root.src:
                raise Violation('cut_leaves_other_than_delete', f'(remainder of the cut does not agree with its own source) cut={root.src[:400]!r} delete={fork.src[:400]!r}')
        run.core_after_ok(False)
        piece = out[1]
        run.stats['cuts'] += 1
        self.check_piece(piece, ctx, op)
        fork = fst.FST(ctx['src'], 'exec')
        try:
            cp = self.read(fork, op, cut=False)
        except Exception as e:
            raise Violation('cut_ok_but_copy_raises', O.exc_repr(e))
        try:
            self.delete(fork, op)
        except Exception as e:
            # norm rules may legitimately differ between delete and cut? no: both are deletions of the same range
            raise Violation('cut_ok_but_delete_raises', O.exc_repr(e))
        if isinstance(piece, fst.FST) != isinstance(cp, fst.FST):
            raise Violation('cut_returns_other_kind_than_copy', f'{type(piece).__name__} vs {type(cp).__name__}')
        if isinstance(piece, fst.FST):
            if piece.src != cp.src or sdump(piece.a) != sdump(cp.a):
                raise Violation('cut_returns_other_than_copy', f'cut={piece.src[:300]!r} copy={cp.src[:300]!r}')
        elif piece != cp:
            raise Violation('cut_returns_other_than_copy', f'cut={piece!r} copy={cp!r}')
        if root.src != fork.src or sdump(root.a) != sdump(fork.a):
            raise Violation('cut_leaves_other_than_delete', f'cut={root.src[:400]!r} delete={fork.src[:400]!r}')
        # (4) unique-token conservation
        if run.cfg.get('unique') and isinstance(piece, fst.FST):
            def _reind(toks):  # documented re-indentation of (multi-line) docstrings: whitespace after newlines is layout
                return None if toks is None else [re.sub(r'\n[ \t]*', '\n', t) if '\n' in t and t[:1] in '\'"rRuUbBfF' else t for t in toks]
            before = _reind(unique_tokens(ctx['src']))
            rem = _reind(unique_tokens(root.src))
            pc = _reind(unique_tokens(piece.src))
            if before is not None and rem is not None and pc is not None and len(set(before)) == len(before):
                opts = O.dec_opts(op.get('opts'))
                if sorted(rem + pc) != sorted(before):
                    lost = sorted(set(before) - set(rem) - set(pc))
                    dup = sorted(set(rem) & set(pc))
                    if dup:
                        raise Violation('token_in_both_piece_and_remainder', f'{dup[:5]!r} piece={piece.src[:200]!r} rem={root.src[:300]!r}')
                    if lost and op.get('what') == 'node' and op['path'] and op['path'][-1][0] in ('exc', 'type'):
                        lost = []  # deleting Raise.exc / ExceptHandler.type necessarily deletes its cause / name (validity)
                    if lost:
                        # comments not selected by trivia stay in the remainder; selected go to the piece: both fine.
                        raise Violation('token_lost_by_cut', f'{lost[:5]!r} trivia={opts.get("trivia")!r} before={ctx["src"][:300]!r} piece={piece.src[:200]!r} rem={root.src[:300]!r}')
                    new = sorted((set(rem) | set(pc)) - set(before))
                    new = [t for t in new if t != 'set']  # documented empty-Set normalisation set_norm='call'
                    if new and any(not t.startswith(('"', "'")) for t in new):
                        raise Violation('token_invented_by_cut', f'{new[:5]!r}')
                run.stats['conservation_checks'] += 1

    def check_piece(self, ret, ctx, op):
        """(2) the returned tree is self-contained, parses on its own and is structurally the original."""
        import fst
        run = self.run
        if not isinstance(ret, fst.FST):
            run.stats['primitive_results'] += 1
            return
        if ret.root is not ret or ret.parent is not None:
            raise Violation('returned_tree_not_root', repr(ret))
        if ret is run.root or any(n is run.root for n in [ret]):
            raise Violation('returned_tree_is_source_tree', '')
        if op['k'] == 'copy' and not op['path']:
            # copy of the root
            if op.get('whole', True) and (ret.src != ctx['src'] or sdump(ret.a) != sdump(ast.parse(ctx['src']))):
                raise Violation('root_copy_differs', '')
            return
        opts = O.dec_opts(op.get('opts'))
        if ctx.get('in_fstr'):
            run.stats['fstring_internal_piece_skipped'] += 1
            return
        # faithful extraction never invents a comment: every COMMENT token of the piece is a COMMENT token of the source
        from collections import Counter
        pc, sc = _comments(ret.src), _comments(ctx['src'])
        if pc is not None and sc is not None:
            extra = Counter(pc) - Counter(sc)
            if extra:
                raise Violation('piece_has_comment_not_in_source', f'{sorted(extra)[:3]!r} piece={ret.src[:300]!r}')
            run.stats['piece_comment_checks'] += 1
        norm_off = opts.get('norm_get') is False or (opts.get('norm') is False and opts.get('norm_get') is None)
        p = parse_standalone(ret)
        if norm_off and p != 'unparsable':
            p = None
        if p == 'unparsable':
            if opts.get('pars') is False or opts.get('pars_arglike') is False or opts.get('norm_get') is False or opts.get('norm') is False:
                run.stats['unparsable_piece_with_pars_or_norm_off'] += 1
                return
            raise Violation('returned_tree_does_not_parse', f'{ret.a.__class__.__name__}: {ret.src[:300]!r}')
        if p is not None:
            if ndump(p) != ndump(ret.a):
                from .editsim import _first_diff
                raise Violation('returned_tree_inconsistent', _first_diff(ndump(p), ndump(ret.a)) + f' src={ret.src[:200]!r}')
            run.stats['piece_parse_checks'] += 1
        orig = ctx.get('orig')
        if orig is None:
            return
        if orig[0] == 'node':
            o = orig[1]
            if isinstance(o, (ast.stmt, ast.expr, ast.pattern)) and type(o) is type(ret.a):
                if ndump_ml(o) != ndump_ml(ret.a):
                    from .editsim import _first_diff
                    raise Violation('copy_not_structurally_equal', _first_diff(ndump_ml(o), ndump_ml(ret.a)))
                run.stats['faithful_checks'] += 1
        else:
            want = sorted(ndump_ml(x) for x in orig[1])
            if orig[2] in ('BoolOp', 'Compare', 'MatchOr') and ret.a.__class__.__name__ != orig[2]:
                # normalised single-element result (e.g. one-operand BoolOp slice returned as the operand itself)
                if len(want) == 1 and want[0] != ndump_ml(ret.a):
                    raise Violation('slice_copy_not_structurally_equal', f'want={want!r}'[:400] + f' got={ndump_ml(ret.a)!r}'[:400])
                return
            kids = [c for c in ast.iter_child_nodes(ret.a) if not isinstance(c, (ast.expr_context,))]
            got = sorted(ndump_ml(x) for x in kids)
            if isinstance(ret.a, ast.Module) or ret.a.__class__.__name__.startswith('_') or isinstance(ret.a, (ast.List, ast.Tuple, ast.Set)):
                if want != got:
                    opts = O.dec_opts(op.get('opts'))
                    if not want and got:  # normalised empty container ({*()}), documented
                        run.stats['normalised_empty'] += 1
                        return
                    raise Violation('slice_copy_not_structurally_equal', f'want={want!r}'[:400] + f' got={got!r}'[:400])
                run.stats['faithful_checks'] += 1
