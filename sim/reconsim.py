"""reconsim (C13): mark(), seeded pure-AST mutation history, reconcile(), with fault P1 = a put issued by the reconciler
raises NodeError at entry (never the root-level fallback)."""

import ast
import collections
import copy
import hashlib
import random
import re

from . import ops as O
from . import progen
from .editsim import check_consistent, modifying_registry
from .model import iter_paths, resolve, sdump

MUT_KINDS = ['replace_new', 'insert_new', 'delete', 'swap', 'dup_copy', 'dup_same', 'move', 'graft', 'prim', 'dict']

MIN_LEN = {('BoolOp', 'values'): 2, ('MatchOr', 'patterns'): 2, ('Delete', 'targets'): 1, ('Assign', 'targets'): 1,
           ('Import', 'names'): 1, ('ImportFrom', 'names'): 1, ('Global', 'names'): 1, ('Nonlocal', 'names'): 1,
           ('With', 'items'): 1, ('AsyncWith', 'items'): 1, ('Match', 'cases'): 1, ('Set', 'elts'): 1,
           ('ListComp', 'generators'): 1, ('SetComp', 'generators'): 1, ('DictComp', 'generators'): 1,
           ('GeneratorExp', 'generators'): 1, ('Compare', 'comparators'): 1, ('Compare', 'ops'): 1}

SAFE_LISTS = {  # (class, field) -> category of new elements
    ('Module', 'body'): 'stmt', ('FunctionDef', 'body'): 'stmt', ('AsyncFunctionDef', 'body'): 'stmt', ('ClassDef', 'body'): 'stmt',
    ('If', 'body'): 'stmt', ('If', 'orelse'): 'stmt', ('For', 'body'): 'stmt', ('For', 'orelse'): 'stmt', ('While', 'body'): 'stmt',
    ('While', 'orelse'): 'stmt', ('With', 'body'): 'stmt', ('AsyncWith', 'body'): 'stmt', ('AsyncFor', 'body'): 'stmt',
    ('Try', 'body'): 'stmt', ('Try', 'finalbody'): 'stmt', ('ExceptHandler', 'body'): 'stmt', ('match_case', 'body'): 'stmt',
    ('List', 'elts'): 'expr', ('Tuple', 'elts'): 'expr', ('Set', 'elts'): 'expr', ('Call', 'args'): 'expr',
    ('ClassDef', 'bases'): 'expr', ('BoolOp', 'values'): 'expr', ('FunctionDef', 'decorator_list'): 'expr',
    ('ClassDef', 'decorator_list'): 'expr', ('Call', 'keywords'): 'keyword', ('With', 'items'): 'withitem',
    ('Import', 'names'): 'alias_import', ('ImportFrom', 'names'): 'alias_from', ('Match', 'cases'): 'match_case',
    ('comprehension', 'ifs'): 'expr', ('ListComp', 'generators'): 'comprehension',
}

NEW_EXPRS = ['nx', 'nf(ny)', '7', "'ns'", 'nx + ny', 'nx.ny', 'nx[ny]', '[nx, ny]', '(nx, ny)', 'nx if ny else nz',
             'not nx', 'nx < ny', 'nx and ny', 'lambda: nx', '{nx: ny}', 'nf(nx, k=ny)', '-nx', 'nx ** ny', 'nä', "'🎉'",
             'await nx', 'yield nx', 'nx := ny', '*nx', 'nx, ny', 'nx if ny else nz', 'lambda nq: nq', 'not nx', 'nx or ny', '-nx ** ny']
NEW_STMTS = ['nx = ny', 'pass', 'nf(nx)', 'del nx', 'return nx', 'nx += 1', 'assert nx', 'import nx', 'if nx:\n    ny',
             'for nx in ny:\n    nz', 'def ng(na, nb=1):\n    return na', 'class NC:\n    nx = 1', 'with nx as ny:\n    nz',
             'try:\n    nx\nexcept ny:\n    nz', 'while nx:\n    break', 'nx: int = 1', 'raise nx', '"new doc"',
             'if nx:\n    ny\nelif nz:\n    nw\nelse:\n    nv', 'match nx:\n    case 1:\n        ny']


def _load_ctx_ok(node):
    return isinstance(getattr(node, 'ctx', None), (ast.Load, type(None))) or not hasattr(node, 'ctx')


def gen_mutation(rng, tree, n_other, focus=None):
    """A mutation descriptor against pure AST `tree` (structure identical to the live one).  `focus`: node class name
    of a focus run - most mutations then aim at nodes of that class and their children."""
    kind = rng.choice(MUT_KINDS)
    if focus and rng.random() < 0.5:
        kind = 'prim' if rng.random() < 0.6 else kind
    nodes = [t for t in iter_paths(tree) if not isinstance(t[1], ast.expr_context)]
    if focus and rng.random() < 0.7:
        fn = [t for t in nodes if t[1].__class__.__name__ == focus or (t[2] is not None and t[2].__class__.__name__ == focus)]
        if fn:
            nodes = fn
    in_fstr = set()
    for n in ast.walk(tree):
        if isinstance(n, ast.JoinedStr):
            for m in ast.walk(n):
                in_fstr.add(id(m))
    nodes = [t for t in nodes if id(t[1]) not in in_fstr]
    lists = []
    for path, node, _, _, _ in [((), tree, None, None, None)] + nodes:
        for f in O.list_fields(node):
            key = (node.__class__.__name__, f)
            if key in SAFE_LISTS:
                v = getattr(node, f)
                if key in (('Tuple', 'elts'), ('List', 'elts')) and not isinstance(getattr(node, 'ctx', None), ast.Load):
                    continue
                if any(isinstance(x, ast.Starred) for x in v if isinstance(x, ast.AST)):
                    continue
                lists.append((path, node, f, SAFE_LISTS[key], MIN_LEN.get(key, 1 if SAFE_LISTS[key] == 'stmt' and key != ('Module', 'body') and f == 'body' else 0)))
    P = lambda p: [list(x) for x in p]  # noqa: E731
    if kind == 'replace_new':
        c = [t for t in nodes if isinstance(t[1], ast.expr) and isinstance(getattr(t[1], 'ctx', ast.Load()), ast.Load)
             and not isinstance(t[1], (ast.Starred, ast.Slice)) and not isinstance(t[2], (ast.MatchValue, ast.MatchMapping, ast.MatchClass, ast.keyword if False else ast.MatchStar))
             and not (isinstance(t[2], ast.Subscript) and t[3] == 'slice') and not (isinstance(t[2], (ast.AnnAssign, ast.AugAssign, ast.NamedExpr)) and t[3] == 'target')
             and not (isinstance(t[2], (ast.ClassDef, ast.Call)) and t[3] in ('bases', 'args') and False)]
        c += [t for t in nodes if isinstance(t[1], ast.stmt)]
        if not c:
            return None
        path, node, parent, field, idx = rng.choice(c)
        if isinstance(node, ast.stmt):
            return {'m': kind, 'path': P(path), 'cat': 'stmt', 'text': rng.choice(NEW_STMTS)}
        return {'m': kind, 'path': P(path), 'cat': 'expr', 'text': rng.choice(NEW_EXPRS)}
    if kind in ('insert_new', 'delete', 'swap', 'dup_copy', 'dup_same'):
        if not lists:
            return None
        path, node, f, cat, mn = rng.choice(lists)
        n = len(getattr(node, f))
        if kind == 'insert_new':
            pool = {'stmt': NEW_STMTS, 'expr': NEW_EXPRS}.get(cat) or O.POOLS[cat]
            return {'m': kind, 'path': P(path), 'field': f, 'idx': rng.randint(0, n), 'cat': cat, 'text': rng.choice(pool)}
        if kind == 'delete':
            if n - 1 < mn or n == 0:
                return None
            return {'m': kind, 'path': P(path), 'field': f, 'idx': rng.randrange(n)}
        if n < 1:
            return None
        if kind == 'swap':
            if n < 2:
                return None
            i, j = rng.sample(range(n), 2)
            return {'m': kind, 'path': P(path), 'field': f, 'i': i, 'j': j}
        return {'m': kind, 'path': P(path), 'field': f, 'src_idx': rng.randrange(n), 'idx': rng.randint(0, n)}
    if kind == 'move':
        if len(lists) < 1:
            return None
        a = rng.choice(lists)
        same = [b for b in lists if b[3] == a[3]]
        b = rng.choice(same)
        na = len(getattr(a[1], a[2]))
        if na - 1 < a[4] or na == 0:
            return None
        i = rng.randrange(na)
        # destination must not be inside the moved node
        if len(b[0]) > len(a[0]) and tuple(b[0][:len(a[0]) + 1]) == tuple(a[0]) + ((a[2], i),):
            return None
        nb = len(getattr(b[1], b[2]))
        return {'m': kind, 'path': P(a[0]), 'field': a[2], 'idx': i, 'to_path': P(b[0]), 'to_field': b[2], 'to_idx': rng.randint(0, max(0, nb - (1 if b[1] is a[1] and b[2] == a[2] else 0)))}
    if kind in ('graft', 'graft_modified'):
        if not lists or not n_other:
            return None
        path, node, f, cat, mn = rng.choice(lists)
        if cat not in ('stmt', 'expr'):
            return None
        return {'m': kind, 'path': P(path), 'field': f, 'idx': rng.randint(0, len(getattr(node, f))), 'cat': cat,
                'other': rng.randrange(n_other), 'pick': rng.randrange(1000)}
    if kind == 'dict':
        # Dict entries live in two parallel lists (keys / values): clear, delete, insert, swap, replace by foreign entries
        inf = set()
        for j in ast.walk(tree):
            if isinstance(j, ast.JoinedStr):
                inf.update(id(k) for k in ast.walk(j))
        ds = [(path, node) for path, node, parent, field, idx in nodes if isinstance(node, ast.Dict) and id(node) not in inf]
        if not ds:
            return None
        path, node = rng.choice(ds)
        n = len(node.keys)
        ops = ['ins', 'ins', 'foreign_all', 'foreign_tail'] + (['clear', 'del', 'del'] if n else []) + (['swap'] if n > 1 else [])
        op = rng.choice(ops)
        mut = {'m': 'dict', 'path': P(path), 'op': op}
        if op == 'ins':
            mut.update(i=rng.randint(0, n), text=rng.choice(['nk: nv', '**nu', '"ns": [nv]', '1: nf(nx)']))
        elif op == 'del':
            mut.update(i=rng.randrange(n))
        elif op == 'swap':
            i = rng.randrange(n)
            mut.update(i=i, j=rng.choice([k for k in range(n) if k != i]))
        elif op in ('foreign_all', 'foreign_tail'):
            mut.update(i=rng.randint(0, n), text=rng.choice(['{fs : ft, **fu}', '{fa: fb,\n fc: [fd],  # c\n}', '{**fu, 1: 2, 3: 4}']))
        return mut
    if kind == 'prim':
        c = []
        for path, node, parent, field, idx in nodes:
            if isinstance(node, ast.Name) and not isinstance(parent, (ast.Global, ast.Nonlocal)):
                c.append((path, 'id', 'nm'))
            elif isinstance(node, ast.Constant) and isinstance(node.value, int) and not isinstance(node.value, bool) and not isinstance(parent, (ast.MatchValue, ast.UnaryOp, ast.BinOp)):
                c.append((path, 'value', 424242))
            elif isinstance(node, ast.Constant) and isinstance(node.value, str) and not isinstance(parent, (ast.MatchValue, ast.MatchMapping)) and not (isinstance(parent, ast.Expr)):
                c.append((path, 'value', 'new str'))
            elif isinstance(node, (ast.FunctionDef, ast.ClassDef, ast.AsyncFunctionDef)):
                c.append((path, 'name', 'new_name'))
            elif isinstance(node, ast.Attribute):
                c.append((path, 'attr', 'new_attr'))
            elif isinstance(node, ast.arg):
                c.append((path, 'arg', 'new_arg'))
            elif isinstance(node, ast.keyword) and node.arg:
                c.append((path, 'arg', 'new_kw'))
            elif isinstance(node, ast.BinOp):
                c.append((path, 'op', '__op__'))
            elif isinstance(node, ast.alias) and node.asname:
                c.append((path, 'asname', 'new_as'))
            # every other primitive / operator field (values chosen so that most results stay valid; the caller
            # discards mutations whose result does not survive ast.unparse -> ast.parse)
            if isinstance(node, ast.ImportFrom):
                c.append((path, 'level', (node.level or 0) + 1))
                if node.level and node.module:
                    c.append((path, 'level', 0))
                if node.module:
                    c.append((path, 'module', 'new_mod.sub'))
            if isinstance(node, ast.alias) and node.name != '*':
                c.append((path, 'name', 'new_alias'))
                if not node.asname:
                    c.append((path, 'asname', 'added_as'))
                else:
                    c.append((path, 'asname', None))
            if isinstance(node, ast.comprehension):
                c.append((path, 'is_async', 0 if node.is_async else 1))
            if isinstance(node, ast.Constant) and isinstance(node.value, str) and not isinstance(parent, (ast.JoinedStr, ast.MatchValue, ast.MatchMapping)):
                c.append((path, 'kind', None if node.kind else 'u'))
            if isinstance(node, ast.Constant) and not isinstance(parent, (ast.JoinedStr, ast.MatchValue, ast.MatchMapping, ast.UnaryOp, ast.BinOp, ast.Expr, ast.Attribute)):
                c.append((path, 'value', rng.choice([3.5, None, True, b'by', 'other str', 17])))
            if isinstance(node, ast.FormattedValue) and node.format_spec is None:
                c.append((path, 'conversion', 114 if node.conversion == -1 else -1))
            if isinstance(node, ast.ExceptHandler) and node.type is not None:
                c.append((path, 'name', 'new_exc' if not node.name else None))
            if isinstance(node, (ast.MatchAs, ast.MatchStar)) and node.name:
                c.append((path, 'name', 'new_cap'))
            if isinstance(node, ast.MatchMapping):
                c.append((path, 'rest', None if node.rest else 'new_rest'))
            if isinstance(node, ast.MatchClass) and node.kwd_attrs:
                c.append((path, 'kwd_attrs', '__kwd__'))
            if isinstance(node, ast.MatchSingleton):
                c.append((path, 'value', rng.choice([None, True, False])))
            if isinstance(node, (ast.TypeVar, ast.ParamSpec, ast.TypeVarTuple)):
                c.append((path, 'name', 'NewT'))
            if isinstance(node, (ast.Global, ast.Nonlocal)):
                c.append((path, 'names', '__names__'))
            if isinstance(node, ast.UnaryOp):
                c.append((path, 'op', '__op__' + rng.choice(['Not', 'USub', 'UAdd', 'Invert'])))
            if isinstance(node, ast.BoolOp):
                c.append((path, 'op', '__op__' + ('Or' if isinstance(node.op, ast.And) else 'And')))
            if isinstance(node, ast.AugAssign):
                c.append((path, 'op', '__op__'))
            if isinstance(node, ast.Compare):
                c.append((path, 'ops', '__cmpop__'))
        if not c:
            return None
        path, fld, val = rng.choice(c)
        if val == '__op__':
            val = '__op__' + rng.choice(['Add', 'Sub', 'Mult', 'BitOr', 'FloorDiv', 'Pow', 'MatMult'])
        if val == '__cmpop__':
            val = '__cmpop__' + rng.choice(['Lt', 'GtE', 'Eq', 'NotEq', 'Is', 'IsNot', 'In', 'NotIn']) + ':' + str(rng.randrange(8))
        if val == '__names__':
            val = '__names__' + str(rng.randrange(8))
        if val == '__kwd__':
            val = '__kwd__' + str(rng.randrange(8))
        if isinstance(val, bytes):
            val = '__bytes__' + val.decode()
        return {'m': kind, 'path': P(path), 'field': fld, 'value': val}
    return None


def apply_mutation(tree, mut, others, live):
    """Apply to `tree` (pure AST or pfst's live AST).  `others`: list of source texts for grafts; when `live` the grafted
    node comes from a real FST tree (with formatting), else from ast.parse.  Returns touched top-level indices (set)
    or raises KeyError if not applicable."""
    path = [tuple(p) for p in mut['path']]
    node = resolve(tree, path)
    if node is None:
        raise KeyError('path')
    m = mut['m']
    if m == 'replace_new':
        new = O.harness_ast(mut['cat'], mut['text'])
        if isinstance(new, ast.Module):
            raise KeyError('multi')
        parent = resolve(tree, path[:-1])
        field, idx = path[-1]
        if idx is None:
            setattr(parent, field, new)
        else:
            getattr(parent, field)[idx] = new
        return
    if m == 'dict':
        if not isinstance(node, ast.Dict):
            raise KeyError('dict')
        ks, vs = node.keys, node.values
        op = mut['op']
        if op == 'clear':
            ks[:] = []
            vs[:] = []
        elif op == 'del':
            if mut['i'] >= len(ks):
                raise KeyError('idx')
            del ks[mut['i']], vs[mut['i']]
        elif op == 'swap':
            i, j = mut['i'], mut['j']
            if max(i, j) >= len(ks):
                raise KeyError('idx')
            ks[i], ks[j] = ks[j], ks[i]
            vs[i], vs[j] = vs[j], vs[i]
        elif op == 'ins':
            d = ast.parse('{' + mut['text'] + '}', mode='eval').body
            i = min(mut['i'], len(ks))
            ks.insert(i, d.keys[0])
            vs.insert(i, d.values[0])
        else:  # entries taken verbatim from ANOTHER tree's Dict (a real FST tree when live)
            if live:
                import fst
                d = fst.FST(mut['text'], 'exec').a.body[0].value
            else:
                d = ast.parse(mut['text']).body[0].value
            i = 0 if op == 'foreign_all' else min(mut['i'], len(ks))
            if not live:
                for x in list(d.keys) + list(d.values):
                    if x is not None:
                        x._foreign = True
            ks[i:] = d.keys
            vs[i:] = d.values
        return
    if m == 'prim':
        v = mut['value']
        if isinstance(v, str) and v.startswith('__op__'):
            v = getattr(ast, v[6:])()
        elif isinstance(v, str) and v.startswith('__cmpop__'):
            name, k = v[9:].split(':')
            ops = node.ops
            ops[int(k) % len(ops)] = getattr(ast, name)()
            return
        elif isinstance(v, str) and v.startswith('__names__'):
            names = node.names
            names[int(v[9:]) % len(names)] = 'renamed_global'
            return
        elif isinstance(v, str) and v.startswith('__kwd__'):
            attrs = node.kwd_attrs
            attrs[int(v[7:]) % len(attrs)] = 'renamed_kwd'
            return
        elif isinstance(v, str) and v.startswith('__bytes__'):
            v = v[9:].encode()
        if not hasattr(node, mut['field']):
            raise KeyError('field')
        setattr(node, mut['field'], v)
        return
    lst = getattr(node, mut['field'], None)
    if not isinstance(lst, list):
        raise KeyError('list')
    n = len(lst)
    if m == 'insert_new':
        new = O.harness_ast(mut['cat'], mut['text'])
        if new is None or isinstance(new, ast.Module):
            raise KeyError('new')
        lst.insert(min(mut['idx'], n), new)
    elif m == 'delete':
        if mut['idx'] >= n:
            raise KeyError('idx')
        del lst[mut['idx']]
    elif m == 'swap':
        if max(mut['i'], mut['j']) >= n:
            raise KeyError('idx')
        lst[mut['i']], lst[mut['j']] = lst[mut['j']], lst[mut['i']]
    elif m in ('dup_copy', 'dup_same'):
        if mut['src_idx'] >= n:
            raise KeyError('idx')
        src = lst[mut['src_idx']]
        if m == 'dup_copy':
            src = pure_copy(src)
        lst.insert(min(mut['idx'], n), src)
    elif m == 'move':
        if mut['idx'] >= n:
            raise KeyError('idx')
        dst = resolve(tree, [tuple(p) for p in mut['to_path']])
        if dst is None:
            raise KeyError('to_path')
        dl = getattr(dst, mut['to_field'], None)
        if not isinstance(dl, list):
            raise KeyError('to_list')
        x = lst[mut['idx']]
        if any(n is dst for n in ast.walk(x)):
            raise KeyError('destination inside the moved node (cycle)')
        lst.pop(mut['idx'])
        dl.insert(min(mut['to_idx'], len(dl)), x)
    elif m in ('graft', 'graft_modified'):
        src = others[mut['other'] % len(others)]
        if live:
            import fst
            ot = fst.FST(src, 'exec')
            otree = ot.a
        else:
            otree = ast.parse(src)
        if mut['cat'] == 'stmt':
            cands = [s for s in otree.body]
        else:
            cands = [x for x in ast.walk(otree) if isinstance(x, ast.expr) and isinstance(getattr(x, 'ctx', ast.Load()), ast.Load)
                     and not isinstance(x, (ast.Starred, ast.Slice))]
            inf = set()
            for j in ast.walk(otree):
                if isinstance(j, ast.JoinedStr):
                    for k in ast.walk(j):
                        if k is not j:
                            inf.add(id(k))
            cands = [x for x in cands if id(x) not in inf]
            # keep document order stable: ast.walk is BFS and deterministic
        if not cands:
            raise KeyError('nocand')
        x = cands[mut['pick'] % len(cands)]
        if m == 'graft_modified':
            for sub in ast.walk(x):
                if isinstance(sub, ast.Name):
                    sub.id = sub.id + '_m'
                    break
        if not live:
            x._foreign = True
        lst.insert(min(mut['idx'], n), x)
    else:
        raise KeyError(m)


def _through_foreign(tree, mut):
    """Does the mutation address something inside (or move/duplicate) a node grafted from another tree?  Such a node must
    stay unmodified: a foreign tree edited behind pfst's back is not a valid formatted tree."""
    for key in ('path', 'to_path'):
        p = mut.get(key)
        if p is None:
            continue
        node = tree
        for f, i in p:
            node = getattr(node, f, None)
            if i is not None and isinstance(node, list):
                node = node[i] if -len(node) <= i < len(node) else None
            if node is None:
                return False
            if getattr(node, '_foreign', False):
                return True
    return False


def pure_copy(node):
    """Deep copy of an AST without pfst links."""
    if isinstance(node, ast.AST):
        new = node.__class__()
        if getattr(node, '_foreign', False):
            new._foreign = True
        for f in node._fields:
            if hasattr(node, f):
                setattr(new, f, pure_copy(getattr(node, f)))
        return new
    if isinstance(node, list):
        return [pure_copy(x) for x in node]
    return node


def valid_ast(tree):
    """The mutated AST is valid Python: unparse -> parse gives the same structure."""
    try:
        ast.fix_missing_locations(tree)
        src = ast.unparse(tree)
        back = ast.parse(src)
    except Exception:
        return False
    return ast.dump(back) == ast.dump(tree)


def stmt_blocks(src, tree):
    """[(index, text block incl. decorators and trailing line comment)] of Module-level statements."""
    out = []
    for i, st in enumerate(tree.body):
        seg = ast.get_source_segment(src, st, padded=False)
        if getattr(st, 'decorator_list', None):
            d = st.decorator_list[0]
            lines = src.split('\n')
            seg = '\n'.join(lines[d.lineno - 1:st.lineno - 1]) + '\n' + ast.get_source_segment(src, st, padded=True)
        out.append((i, st.lineno, st.end_lineno, seg))
    return out


class ReconRun:
    def __init__(self, prop, seed=None, case=None, extra=None):
        self.prop = prop
        self.seed = seed
        self.rng = random.Random(seed) if case is None else None
        self.case_in = case
        self.stats = collections.Counter()
        self.tuples = set()
        self.viol = None
        self.log = []
        self.flags = set()

    def run(self):
        import fst
        from fst import reconcile as rmod
        FST = fst.FST
        rng = self.rng
        if self.case_in is None:
            cfg = progen.swarm_cfg(rng, unique=rng.random() < 0.5, max_lines=40)
            cfg['n_rounds'] = rng.choice([1, 1, 2, 3])
            cfg['p1_rate'] = rng.choice([0.0, 0.0, 0.1, 0.3, 0.5])
            cfg['recon_opts'] = rng.choice([{}, {}, {'pep8space': 1}, {'elif_': False}, {'pep8space': False}])
            program = progen.gen_program(rng, cfg, self.stats)
            others = [progen.gen_program(rng, dict(cfg, unique=False, n_top=(1, 3))) for _ in range(2)]
            rounds_in = None
        else:
            cfg = self.case_in['config']
            program = self.case_in['program']
            others = self.case_in['others']
            rounds_in = self.case_in['rounds']
        self.cfg, self.program, self.others = cfg, program, others
        rounds_out = []
        self.rounds = rounds_out
        orig_put = rmod.Reconcile.put_node
        state = {'calls': 0, 'fail': set(), 'failed': [], 'frng': None, 'rate': 0.0}

        def put_node(rself, code, out_parent=None, pfield=None):
            if out_parent is not None:
                k = state['calls']
                state['calls'] += 1
                if state['frng'] is not None:
                    inject = state['frng'].random() < state['rate']
                else:
                    inject = k in state['fail']
                if inject:
                    state['failed'].append(k)
                    raise fst.NodeError('injected P1: put unavailable')
            return orig_put(rself, code, out_parent, pfield)

        rmod.Reconcile.put_node = put_node
        try:
            root = FST(program, 'exec')
            n_rounds = len(rounds_in) if rounds_in is not None else cfg['n_rounds']
            for r in range(n_rounds):
                src0 = root.src
                root.mark()
                pure = ast.parse(src0)
                if sdump(pure) != sdump(root.a):
                    self.stats['collateral_c01'] += 1
                    break
                if any(isinstance(w, (ast.With, ast.AsyncWith)) and len(w.items) == 1 and isinstance(w.items[0].context_expr, ast.Tuple)
                       and w.items[0].optional_vars is None for w in ast.walk(pure)):
                    # family of C01-K18: a With whose single item is a (parenthesized) Tuple cannot be re-written from its AST
                    self.flags.add('with_single_tuple_item')
                muts = []
                touched = set()
                orig_stmts = list(pure.body)
                orig_blocks = {id(st): blk for st, blk in zip(pure.body, stmt_blocks(src0, pure))}
                if rounds_in is not None:
                    want = rounds_in[r]['mutations']
                else:
                    want = None
                    n_mut = rng.choice([0, 1, 1, 2, 3, 4, 6])
                k = 0
                tries = 0
                while True:
                    if want is not None:
                        if k >= len(want):
                            break
                        mut = want[k]
                        k += 1
                    else:
                        if len(muts) >= n_mut or tries > n_mut * 4 + 4:
                            break
                        tries += 1
                        mut = gen_mutation(rng, pure, len(others), cfg.get('focus_cls'))
                        if mut is None:
                            continue
                    if _through_foreign(pure, mut):
                        self.stats['mutation_inside_grafted_node_skipped'] += 1
                        continue
                    trial = pure_copy(pure)
                    try:
                        apply_mutation(trial, mut, others, False)
                    except (KeyError, IndexError):
                        continue
                    if not valid_ast(trial):
                        self.stats['mutation_rejected_invalid'] += 1
                        continue
                    for p, fld in ((mut['path'], mut.get('field')), (mut.get('to_path'), mut.get('to_field'))):
                        if p is not None and fld == 'orelse':
                            tn = resolve(pure, [tuple(x) for x in p])
                            if isinstance(tn, ast.If) and len(tn.orelse) == 1 and isinstance(tn.orelse[0], ast.If):
                                self.flags.add('into_orelse_of_if_with_lone_if')
                    for p in (mut['path'], mut.get('to_path')):
                        if p is None:
                            continue
                        pth = [tuple(x) for x in p]
                        # family of C01-K24 / C04-K2: the statement is written with explicit line continuations
                        top = resolve(pure, pth[:1]) if pth else None
                        blk = orig_blocks.get(id(top)) if top is not None else None
                        if blk is not None and re.search(r'\\[ \t]*(\n|$)', '\n'.join(src0.split('\n')[blk[1] - 1:blk[2]])):
                            self.flags.add('touches_stmt_with_line_continuation')
                        # family of C07-K3 / C08-K1: unparenthesized Subscript.slice tuple
                        for kk in range(len(pth) + 1):
                            nd = resolve(pure, pth[:kk])
                            if isinstance(nd, ast.Subscript) and isinstance(nd.slice, ast.Tuple) and kk < len(pth) and pth[kk][0] == 'slice':
                                self.flags.add('inside_subscript_slice_tuple')
                        cn = resolve(pure, pth)
                        if isinstance(cn, ast.Subscript) and isinstance(cn.slice, ast.Tuple) and mut.get('field') == 'slice':
                            self.flags.add('inside_subscript_slice_tuple')
                    if mut['m'] == 'prim' and mut.get('field') in ('name', 'asname', 'module'):
                        # family of C01-K7 / K25: dotted names written with whitespace or continuations between the parts
                        pth = [tuple(x) for x in mut['path']]
                        tn = resolve(root.a, pth)
                        st = tn if isinstance(tn, ast.ImportFrom) else resolve(root.a, pth[:-1]) if pth else None
                        if isinstance(st, (ast.Import, ast.ImportFrom)) and hasattr(st, 'end_lineno'):
                            try:
                                seg = ast.get_source_segment(root.src, st) or ''
                            except Exception:
                                seg = ''
                            if re.search(r'[\w\]][ \t\\\n]+\.|\.[ \t\\\n]+\w', seg):
                                self.flags.add('prim_on_dotted_name_written_with_whitespace')
                    for p in (mut['path'], mut.get('to_path')):
                        # every node on the way down is touched (by identity: the same statement object may sit at
                        # several places after dup_same / move, also below another statement)
                        for kk in range(1, len(p or ()) + 1):
                            nd = resolve(pure, [tuple(x) for x in p[:kk]])
                            if nd is not None:
                                touched.add(id(nd))
                    if mut['m'] in ('move', 'delete', 'swap', 'dup_same', 'dup_copy') and mut.get('field'):
                        cn = resolve(pure, [tuple(x) for x in mut['path']])
                        lst = getattr(cn, mut['field'], None) if cn is not None else None
                        for key in ('idx', 'src_idx', 'i', 'j'):
                            if isinstance(lst, list) and isinstance(mut.get(key), int) and 0 <= mut[key] < len(lst) and isinstance(lst[mut[key]], ast.AST):
                                if mut['m'] != 'dup_copy' and not (mut['m'] in ('dup_same',) and key == 'idx'):
                                    if cn is not pure:   # element of a nested list: the element object itself is involved
                                        touched.add(id(lst[mut[key]]))
                    try:
                        apply_mutation(pure, mut, others, False)
                        apply_mutation(root.a, mut, others, True)
                    except (KeyError, IndexError):
                        self.stats['mutation_diverged'] += 1
                        raise _Abort()
                    muts.append(mut)
                    self.stats['mut_' + mut['m']] += 1
                from .props_c07 import ndump_ml as ndump
                edited = ndump(pure)
                if ndump(root.a) != edited:
                    # live AST and shadow diverged only by graft formatting? structure must agree
                    self.stats['shadow_mismatch'] += 1
                    raise _Abort()
                # fault plan
                state['calls'] = 0
                state['failed'] = []
                if rounds_in is not None:
                    state['frng'] = None
                    state['fail'] = set(rounds_in[r].get('fail_calls') or ())
                else:
                    state['rate'] = cfg['p1_rate']
                    state['frng'] = random.Random(rng.getrandbits(32)) if cfg['p1_rate'] else None
                    state['fail'] = set()
                ropts = dict(cfg.get('recon_opts') or {})
                try:
                    out = root.reconcile(**ropts)
                except Exception as e:
                    rounds_out.append({'mutations': muts, 'fail_calls': list(state['failed'])})
                    self.viol = {'kind': 'reconcile_raises' + ('_under_P1' if state['failed'] else ''), 'step': r,
                                 'detail': O.exc_repr(e) + f' | mutations={muts!r}'[:1500], 'n_faults': len(state['failed'])}
                    break
                rounds_out.append({'mutations': muts, 'fail_calls': list(state['failed'])})
                self.stats['reconciles'] += 1
                self.stats['fault_P1_fired'] += len(state['failed'])
                self.stats['fault_P1_put_calls'] += state['calls']
                if state['failed']:
                    self.stats['reconciles_with_faults'] += 1
                self.tuples.add(f'{len(muts)}|{"+".join(sorted(set(m["m"] for m in muts)))}|{min(len(state["failed"]), 3)}')
                self.log.append((hashlib.sha1(repr(muts).encode()).hexdigest()[:12], tuple(state['failed']), hashlib.sha1(out.src.encode('utf-8', 'surrogatepass')).hexdigest()[:12]))
                untouched = [orig_blocks[id(st)] for st in orig_stmts
                             if id(st) not in touched and sum(1 for x in pure.body if x is st) == 1]
                v = self.judge(out, edited, src0, muts, untouched, bool(state['failed']))
                if v is not None:
                    self.viol = dict(v, step=r, n_faults=len(state['failed']))
                    break
                root = out
        except _Abort:
            pass
        finally:
            rmod.Reconcile.put_node = orig_put
            try:
                modifying_registry().clear()
            except Exception:
                pass
        if self.viol is not None:
            self.viol['predicates'] = sorted(self.flags)
        return {
            'steps': sum(len(r['mutations']) for r in rounds_out) + len(rounds_out), 'ok_steps': self.stats.get('reconciles', 0),
            'stats': dict(self.stats), 'tuples': sorted(self.tuples), 'shapes': [], 'violation': self.viol,
            'digest': hashlib.sha1((repr(self.log) + repr(self.viol and self.viol['kind'])).encode()).hexdigest()[:16],
            'case': {'property': self.prop, 'engine': 'reconsim', 'config': cfg, 'program': program, 'others': others,
                     'rounds': rounds_out, 'violation': dict(self.viol, predicates=sorted(self.flags)) if self.viol else None,
                     'seed': self.seed},
        }

    def judge(self, out, edited, src0, muts, touched, faulted):
        import fst
        if not isinstance(out, fst.FST):
            return {'kind': 'reconcile_returns_non_tree', 'detail': repr(out)}
        bad = check_consistent(out)
        if bad is not None:
            return {'kind': 'result_violates_C01_' + bad[0], 'detail': bad[1] + f' | src={out.src[:400]!r} mutations={muts!r}'[:1200]}
        from .props_c07 import ndump_ml as ndump
        got = ndump(out.a)
        if got != edited:
            from .editsim import _first_diff
            return {'kind': 'result_differs_from_edited_ast', 'detail': _first_diff(edited, got).replace('parsed:', 'edited:').replace('live:', 'result:') + f' | mutations={muts!r}'[:800]}
        if not muts:
            if faulted:
                return None
            if out.src != src0:
                return {'kind': 'no_change_but_source_differs', 'detail': f'marked={src0[:300]!r} result={out.src[:300]!r}'}
            self.stats['identity_reconciles'] += 1
            return None
        if faulted:
            return None  # under P1 only validity and structure are asserted
        # untouched Module-level statements keep their exact text
        res = out.src
        for i, s_, e_, text in touched:
            self.stats['untouched_stmt_checks'] += 1
            if not _contains_block(res, text):
                return {'kind': 'untouched_statement_text_changed', 'detail': f'stmt {i} text={text[:300]!r} | result={res[:600]!r} | mutations={muts!r}'[:1500]}
        return None


def _contains_block(res, text):
    """`text` (one or more whole lines) appears in `res` as whole lines, modulo a common indentation? No: verbatim."""
    return text is None or text in res


class _Abort(Exception):
    pass


def engine_run(prop, seed, extra):
    return ReconRun(prop, seed=seed, extra=extra).run()


def engine_replay(case):
    return ReconRun(case['property'], case=case).run()


def minimise(case, fails):
    from .core import ddmin
    base = copy.deepcopy(case)
    if not fails(base):
        return case
    # drop later rounds
    step = (case.get('violation') or {}).get('step')
    if isinstance(step, int) and step + 1 < len(base['rounds']):
        c = dict(base, rounds=base['rounds'][:step + 1])
        if fails(c):
            base = c
    # per round: ddmin mutations, then fault calls
    for r in range(len(base['rounds'])):
        def with_m(ms, r=r):
            rs = copy.deepcopy(base['rounds'])
            rs[r]['mutations'] = ms
            return dict(base, rounds=rs)
        ms = ddmin(list(base['rounds'][r]['mutations']), lambda ms: fails(with_m(ms)), 80)
        base = with_m(ms)

        def with_f(fs, r=r):
            rs = copy.deepcopy(base['rounds'])
            rs[r]['fail_calls'] = fs
            return dict(base, rounds=rs)
        fs = ddmin(list(base['rounds'][r].get('fail_calls') or []), lambda fs: fails(with_f(fs)), 60)
        base = with_f(fs)
    return base


def signature(case):
    v = case.get('violation') or {}
    rounds = case.get('rounds') or []
    last = rounds[-1] if rounds else {}
    muts = last.get('mutations') or []
    sig = {'kind': v.get('kind'), 'mutations': '+'.join(sorted(set(m['m'] for m in muts))),
           'faulted': bool(last.get('fail_calls'))}
    for p in v.get('predicates') or ():
        sig['P:' + p] = True
    return sig
