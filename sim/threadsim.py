"""threadsim (C20): real threads (the state under test is threading.local), but only one is ever runnable.

Each thread blocks on its own Event; a sys.settrace local trace function counts 'line' events in pfst source files
and, when a drawn quantum expires, hands the baton to the thread the scheduler picks.  Which thread runs is decided only
by the PRNG (generation) or by the recorded decision list (replay), so the interleaving is exactly repeatable."""

import ast
import collections
import copy
import hashlib
import json
import random
import sys
import threading

from . import ops as O
from . import progen
from .editsim import check_consistent, modifying_registry

DEFAULTS = {
    'raw': False, 'trivia': True, 'coerce': True, 'promote': True, 'elif_': True, 'pep8space': True, 'docstr': True,
    'pars': 'auto', 'pars_walrus': False, 'pars_arglike': True, 'norm': False, 'norm_self': None, 'norm_get': None,
    'set_norm': 'star', 'op_side': 'left', 'op': None, 'args_as': None,
}

GOOD = {
    'trivia': [True, False, 'all', 'block', 'none', 'all+', ('none', 'none'), ('all', 'all'), ('block', 'line')],
    'pep8space': [True, False, 1], 'elif_': [True, False], 'docstr': [True, False, 'strict'],
    'pars': [True, False, 'auto'], 'pars_walrus': [True, False, None], 'pars_arglike': [True, False, None],
    'norm': [True, False, 'star', 'call'], 'norm_self': [None, True, False], 'norm_get': [None, True, False],
    'set_norm': ['star', 'call'], 'op_side': ['left', 'right'], 'coerce': [True, False],
    'promote': [True, False, 'identifier', 'all'],
    # the extra Compare operator: source string or list of source lines (a mutable value the library must not change)
    'op': [None, '<', 'is not', ['=='], ['not in'], ['is \\', 'not'], ['>=']],
}
BAD = [{'foo': 1}, {'pars': 3}, {'trivia': 'bad'}, {'raw': 'x'}, {'norm': 7}, {'pep8space': 2}, {'docstr': 'x'},
       {'set_norm': True}, {'op_side': 'up'}, {'args_as': 'zz'}, {'coerce': 1}, {'elif_': None}, {'trivia': (1, 2, 3)},
       {'to': None}, {'ins_ln': 3}, {'Pars': True}, {'pars': True, 'nope': 1}, {'norm': True, 'pars_walrus': 'x'}]


class _BlockBoom(Exception):
    pass


# canary battery, run by every thread after its script under `with FST.options(**DEFAULTS)`: small edits through the
# OPTION-LESS entry points (attribute / view-item assignment) on fresh trees, compared (a) with the same single-element
# put made through put() with the defaults passed explicitly and (b) with their own results before the run.  Anything a
# call leaves behind in process-wide state that changes them is a call whose options did not stay with that call.  The
# list starts with the kinds of puts that have option special-casing of their own.  (The last column is the result on
# the unchanged tree, for the reader; it is not used by the check.)
BATTERY = [
    ('from m import a, b\n', [('body', 0)], 'names', 0, 'z', 'from m import z, b\n'),
    ('import a, b\n', [('body', 0)], 'names', 1, 'c.d', 'import a, c.d\n'),
    ('with a, b: pass\n', [('body', 0)], 'items', 0, 'c as d', 'with c as d, b: pass\n'),
    ('global a, b\n', [('body', 0)], 'names', 0, 'z', 'global z, b\n'),
    ('del a, b\n', [('body', 0)], 'targets', 0, 'c', 'del c, b\n'),
    ('class A(b): pass\n', [('body', 0)], 'bases', 0, 'x if y else z', 'class A(x if y else z): pass\n'),
    ('def f(a, b=1): pass\n', [('body', 0), ('args', None)], 'defaults', 0, 'x if y else z', 'def f(a, b=x if y else z): pass\n'),
    ('a * b\n', [('body', 0), ('value', None)], 'left', None, 'x + y', '(x + y) * b\n'),
    ('[a, b]\n', [('body', 0), ('value', None)], 'elts', 0, 'x, y', '[(x, y), b]\n'),
    ('not a\n', [('body', 0), ('value', None)], 'operand', None, 'x and y', 'not (x and y)\n'),
    ('a.b\n', [('body', 0), ('value', None)], 'value', None, 'x + y', '(x + y).b\n'),
    ('a ** b\n', [('body', 0), ('value', None)], 'left', None, '-x', '(-x) ** b\n'),
    ('f(a)\n', [('body', 0), ('value', None)], 'args', 0, '*x, y', 'f((*x, y))\n'),
    ('a if b else c\n', [('body', 0), ('value', None)], 'test', None, 'lambda: x', 'a if (lambda: x) else c\n'),
    ('{a, b}\n', [('body', 0), ('value', None)], 'elts', 1, 'x := y', '{a, (x := y)}\n'),
    ('a[b]\n', [('body', 0), ('value', None)], 'slice', None, 'x := y', 'a[(x := y)]\n'),
]


def gen_good(rng, k=None):
    keys = rng.sample(sorted(GOOD), k or rng.choice([1, 1, 2, 3]))
    return O.enc_opts({key: copy.deepcopy(rng.choice(GOOD[key])) for key in keys})


# ----------------------------------------------------------------------------------------------------------------------
# script generation (against the live tree of the thread, while it runs alone)

def gen_script_op(rng, root, depth=0):
    r = rng.random()
    tree = root.a
    if r < 0.14:
        return {'s': 'set', 'opts': gen_good(rng)}
    if r < 0.22:
        return {'s': 'set_bad', 'opts': O.enc_opts(rng.choice(BAD))}
    if r < 0.30:
        return {'s': 'snapshot'}
    if r < 0.42 and depth < 3:
        return {'s': 'block', 'opts': gen_good(rng), 'n': rng.choice([1, 2, 3]), 'boom': rng.random() < 0.35}
    if r < 0.48 and depth < 3:
        return {'s': 'block_bad', 'opts': O.enc_opts(rng.choice(BAD))}
    if r < 0.50:
        # edits whose RESULT depends on a thread default (set_norm / norm, op_side): emptying a Set, deleting a
        # Compare / BoolOp operand, all through entry points that rely on the defaults
        c = []
        for path, node, parent, field, idx in O.all_nodes(tree):
            if isinstance(node, ast.Set):
                c.append({'k': 'put_slice', 'path': [list(p) for p in path], 'field': 'elts', 'start': 0, 'stop': 'end', 'opts': {}, 'code': {'form': 'none'}})
                c.append({'k': 'cut_slice', 'path': [list(p) for p in path], 'field': 'elts', 'start': 0, 'stop': 'end', 'opts': {}})
            elif isinstance(node, ast.Compare):
                c.append({'k': 'put_slice', 'path': [list(p) for p in path], 'field': '_all', 'start': 1, 'stop': 2, 'opts': {}, 'code': {'form': 'none'}})
                # insert of a bare operand: the missing operator comes from the 'op' option (thread default or per call)
                for _ in range(3):
                    i = rng.randint(0, len(node.comparators) + 1)
                    c.append({'k': 'put_slice', 'path': [list(p) for p in path], 'field': '_all', 'start': i, 'stop': i,
                              'opts': O.enc_opts({'op': copy.deepcopy(rng.choice(GOOD['op'])), 'op_side': rng.choice(GOOD['op_side'])}) if rng.random() < 0.6 else {},
                              'code': {'form': 'src', 'cat': 'expr', 'text': rng.choice(['zz', 'zy', '(zx)'])}, 'one': rng.choice([False, True])})
            elif isinstance(node, ast.BoolOp) and len(node.values) > 2:
                c.append({'k': 'put_slice', 'path': [list(p) for p in path], 'field': 'values', 'start': 1, 'stop': 2, 'opts': {}, 'code': {'form': 'none'}})
        if c:
            op = rng.choice(c)
            if rng.random() < 0.3 and not op['opts']:
                op['opts'] = gen_good(rng)
                op['opts'].pop('raw', None)
            return {'s': 'edit', 'op': op}
    if r < 0.58:
        # a pure read with and without per-call options on the same (unmodified) node: "an option passed to a call
        # affects only that call" - the answer must be the one a fresh identical tree gives when asked alone
        nodes = [t for t in O.all_nodes(tree) if isinstance(t[1], (ast.stmt, ast.expr)) and not isinstance(t[1], (ast.Slice, ast.Starred))]
        if nodes:
            path = rng.choice(nodes)[0]
            o = {}
            if rng.random() < 0.6:
                o['docstr'] = rng.choice([True, False, 'strict'])
            return {'s': 'own_src', 'path': [list(p) for p in path], 'opts': O.enc_opts(o), 'twice': rng.random() < 0.5}
    if r < 0.70:
        nodes = O.all_nodes(tree)
        if not nodes:
            return {'s': 'snapshot'}
        path = rng.choice(nodes)[0]
        op = {'s': 'copy', 'path': [list(p) for p in path], 'opts': gen_good(rng) if rng.random() < 0.4 else {}}
        if rng.random() < 0.15:
            op['opts'] = O.enc_opts(rng.choice(BAD))
        return op
    op = O.gen_edit(rng, tree, {'opt_rate': 0.0, 'p_same_cat': 0.9, 'forms': ('src', 'src', 'fst', 'ast')})
    if op is None:
        return {'s': 'snapshot'}
    if 'opts' in op and rng.random() < 0.35:
        op['opts'] = gen_good(rng)
        op['opts'].pop('raw', None)
    if 'opts' in op and rng.random() < 0.08:
        op['opts'] = O.enc_opts(rng.choice(BAD))
    return {'s': 'edit', 'op': op}


def run_battery():
    """[(result through the option-less entry point, result of the same single-element put as put(..., **DEFAULTS))] for
    every canary edit, each on a fresh tree, under `with FST.options(**DEFAULTS)`."""
    import fst
    out = []
    with fst.FST.options(**DEFAULTS):
        for src, path, field, idx, code, _recorded in BATTERY:
            pair = []
            for explicit in (False, True):
                try:
                    t = fst.FST(src, 'exec')
                    n = t
                    for fld, i in path:
                        n = getattr(n, fld)
                        if i is not None:
                            n = n[i]
                    if explicit:
                        if idx is None:
                            n.put(code, field=field, **DEFAULTS)
                        else:
                            n.put(code, idx, field=field, **DEFAULTS)
                    elif idx is None:
                        setattr(n, field, code)
                    else:
                        getattr(n, field)[idx] = code
                    got = t.src
                except Exception as e:
                    got = 'EXC ' + O.exc_repr(e)
                pair.append(got)
            out.append(tuple(pair))
    return out


def battery_verdict(before, after):
    """None or a description.  Only relative comparisons (no expected text is hard-wired): the option-less entry point must
    act like put() with the defaults given explicitly, and nothing the run did may have changed a canary result."""
    for (src, path, field, idx, code, _recorded), b, a in zip(BATTERY, before, after):
        what = f'{field}{"" if idx is None else [idx]} = {code!r} on a fresh tree {src!r} under default options'
        if a[0] != a[1]:
            return f'the option-less edit {what} gives {a[0]!r}, the same put with the defaults passed explicitly gives {a[1]!r}'
        if a != b:
            return f'state left behind by this run: the edit {what} gave {b[0]!r} before the run and gives {a[0]!r} after it'
    return None


class Worker:
    """Executes one thread's script on its own tree and records per-op results."""

    def __init__(self, program, script=None, rng=None, n_ops=0, explicit=False):
        self.explicit = explicit  # metamorphic twin: every call gets the thread's current effective defaults explicitly
        self.program = program
        self.script_in = script
        self.rng = rng
        self.n_ops = n_ops
        self.script = []
        self.record = []
        self.model_err = None
        self.error = None
        self.opt_objs = {}

    def snapshot(self):
        import fst
        return O.enc_opts(fst.FST.get_options())

    def run(self):
        import fst
        try:
            self.model = dict(DEFAULTS)
            first = fst.FST.get_options()
            if first != DEFAULTS:
                self.model_err = f'new thread does not start with module defaults: {first!r}'
            self.root = fst.FST(self.program, 'exec')
            if self.script_in is not None:
                for op in self.script_in:
                    self.exec_op(op, self.script)
            else:
                for _ in range(self.n_ops):
                    op = gen_script_op(self.rng, self.root)
                    self.exec_op(op, self.script, gen=True)
            self.record.append(('final', O.result_repr(self.root.src), self.snapshot()))
        except BaseException as e:  # harness problem
            import traceback
            self.error = traceback.format_exc()

    def check_model(self, where):
        import fst
        got = fst.FST.get_options()
        if got != self.model and self.model_err is None:
            d = {k: (self.model.get(k), got.get(k)) for k in set(got) | set(self.model) if self.model.get(k) != got.get(k)}
            self.model_err = f'{where}: option store differs from sequential model (model, actual): {d!r}'

    def exec_op(self, op, out, gen=False, depth=0):
        import fst
        FST = fst.FST
        s = op['s']
        rec = None
        if s == 'set':
            o = O.dec_opts(op['opts'])
            try:
                old = FST.set_options(**o)
                rec = ('set', O.enc_opts(old))
                self.model.update(copy.deepcopy(o))
            except Exception as e:
                rec = ('set_exc', O.exc_repr(e))
        elif s == 'set_bad':
            o = O.dec_opts(op['opts'])
            before = FST.get_options()
            try:
                FST.set_options(**o)
                rec = ('set_bad_accepted', None)
                self.model.update(copy.deepcopy(o))
            except ValueError as e:
                rec = ('set_bad_rejected', O.exc_repr(e)[:80])
                if FST.get_options() != before and self.model_err is None:
                    self.model_err = f'rejected set_options({o!r}) changed the option store'
            except Exception as e:
                rec = ('set_bad_exc', O.exc_repr(e))
        elif s == 'snapshot':
            rec = ('snapshot', self.snapshot())
        elif s in ('block', 'block_bad'):
            o = O.dec_opts(op['opts'])
            entry = copy.deepcopy(self.model)
            inner = op.setdefault('inner', []) if gen else op.get('inner', [])
            new_inner = []
            try:
                with FST.options(**o):
                    if s == 'block_bad':
                        rec = ('block_bad_entered', None)
                    self.model.update(copy.deepcopy(o))
                    self.check_model('inside block')
                    if gen:
                        for _ in range(op['n']):
                            iop = gen_script_op(self.rng, self.root, depth + 1)
                            self.exec_op(iop, new_inner, gen=True, depth=depth + 1)
                        op['inner'] = new_inner
                    else:
                        for iop in inner:
                            self.exec_op(iop, new_inner, depth=depth + 1)
                    if op.get('boom'):
                        raise _BlockBoom()
                rec = rec or ('block_exit', None)
            except _BlockBoom:
                rec = ('block_boom', None)
            except ValueError as e:
                rec = ('block_rejected', O.exc_repr(e)[:80])
            except Exception as e:
                rec = ('block_exc', O.exc_repr(e))
            if rec[0] in ('block_exit', 'block_boom'):
                # documented: only the options named in the call are restored, to their values at entry
                for k in o:
                    self.model[k] = entry[k]
            elif rec[0] == 'block_rejected':
                self.model = entry
        elif s == 'own_src':
            o = O.dec_opts(op['opts'])
            try:
                f = O.resolve_f(self.root, op['path'])
                r = f.own_src(**o)
                if op.get('twice'):  # and once more without the per-call option, on the same unmodified node
                    r = (r, f.own_src())
                froot = fst.FST(self.root.src, 'exec')
                fresh = O.resolve_f(froot, op['path'])
                want = fresh.own_src(**o)
                if op.get('twice'):
                    want = (want, O.resolve_f(fst.FST(self.root.src, 'exec'), op['path']).own_src())
                # precondition of the comparison: the live tree is, node for node and position for position, the parse
                # of its source (edits made with norm=False may leave e.g. an empty BoolOp whose source '()' parses as
                # a Tuple; source/tree agreement itself is C01's subject, not this check's)
                # ... and was built with the same inferred indentation unit (a tree keeps the unit inferred when it was
                # built; after edits a fresh parse may infer another one: known finding C02-K1, decided by C02)
                same = (ast.dump(self.root.a, include_attributes=True) == ast.dump(froot.a, include_attributes=True)
                        and self.root.indent == froot.indent)
                if same and r != want and self.model_err is None:
                    self.model_err = f'own_src({o!r}) of {op["path"]!r} depends on earlier calls: live={r!r} fresh tree asked alone={want!r}'
                rec = ('own_src', O.result_repr(r))
            except O.Skip:
                rec = ('own_src_skip', None)
            except Exception as e:
                rec = ('own_src_exc', O.exc_repr(e))
        elif s == 'copy':
            o = O.dec_opts(op['opts'])
            if self.explicit:
                o = dict(self.model, **o)
            try:
                f = O.resolve_f(self.root, op['path'])
                r = f.copy(**o)
                rec = ('copy', O.result_repr(r))
            except O.Skip:
                rec = ('copy_skip', None)
            except Exception as e:
                rec = ('copy_exc', O.exc_repr(e))
        elif s == 'edit':
            eop = op['op']
            as_put = False
            if self.explicit and 'opts' in eop and eop.get('k') not in ('put_docstr', 'put_line_comment'):  # these two have their own trivia default
                eop = dict(eop, opts=O.enc_opts(dict(self.model, **O.dec_opts(eop.get('opts')))))
            elif self.explicit and eop.get('k') in ('view_setitem', 'attr_set') and eop.get('field') and not eop['field'].startswith('_') \
                    and (eop['k'] == 'attr_set' or isinstance(eop.get('idx'), int)) and eop.get('code', {}).get('form') != 'none':
                # option-less entry points (view[i] = code, node.field = code for a single-valued field) are the same
                # single-element put as node.put(code, [i,] field): the twin makes that call with the thread's effective
                # defaults given explicitly
                try:
                    cur = getattr(O.resolve_f(self.root, eop['path']).a, eop['field'], None)
                except Exception:
                    cur = None
                if eop['k'] == 'view_setitem' and isinstance(cur, list) and -len(cur) <= eop['idx'] < len(cur):  # (out of range: the view and put() refuse with different exceptions)
                    eop = {'k': 'put', 'path': eop['path'], 'field': eop['field'], 'idx': eop['idx'], 'code': eop['code'], 'opts': O.enc_opts(dict(self.model))}
                    as_put = True
                elif eop['k'] == 'attr_set' and cur is not None and not isinstance(cur, list):
                    eop = {'k': 'put', 'path': eop['path'], 'field': eop['field'], 'code': eop['code'], 'opts': O.enc_opts(dict(self.model))}
                    as_put = True
            try:
                r = O.apply_edit(self.root, eop, opt_objs=self.opt_objs)
                rec = ('edit', O.result_repr(None if as_put else r))
            except O.Skip:
                rec = ('edit_skip', None)
            except Exception as e:
                rec = ('edit_exc', O.exc_repr(e))
            for (ok, js), obj in self.opt_objs.items():
                # the caller passes the same list object whenever it names the same value: a call that changed it has
                # affected every later call that passes it
                if json.dumps(obj) != js and self.model_err is None:
                    self.model_err = f'per-call option {ok}={json.loads(js)!r} was changed by the call to {obj!r}: later calls passing the same object are affected'
        if s not in ('block', 'block_bad'):
            self.check_model(f'after {s}')
        else:
            self.check_model(f'after {s} ({rec[0]})')
        self.record.append((s, rec, hashlib.sha1(self.root.src.encode('utf-8', 'surrogatepass')).hexdigest()[:12]))
        out.append(op)


# ----------------------------------------------------------------------------------------------------------------------
# scheduler

class Scheduler:
    def __init__(self, n, rng=None, plan=None, mean_quantum=50):
        self.n = n
        self.rng = rng
        self.plan = list(plan) if plan is not None else None
        self.pi = 0
        self.decisions = []
        self.mean = mean_quantum
        self.go = [threading.Event() for _ in range(n)]
        self.done = [False] * n
        self.current = None
        self.quantum = 0
        self.count = 0
        self.lines = 0
        self.switches = 0
        self.sites = collections.Counter()
        self.all_done = threading.Event()
        self.abort = False

    def draw(self, runnable):
        if self.plan is not None:
            if self.pi < len(self.plan):
                t, q = self.plan[self.pi]
                self.pi += 1
                if t not in runnable:
                    t = runnable[0]
            else:
                t, q = runnable[0], 10 ** 9
        else:
            t = self.rng.choice(runnable)
            q = max(1, int(self.rng.expovariate(1.0 / self.mean)))
        self.decisions.append([t, q])
        return t, q

    def start(self):
        t, q = self.draw(list(range(self.n)))
        self.current, self.quantum, self.count = t, q, 0
        self.go[t].set()

    def wait_turn(self, tid):
        self.go[tid].wait()
        if self.abort:
            raise SystemExit

    def tracer(self, tid):
        sched = self

        def local(frame, event, arg):
            if event == 'line':
                sched.lines += 1
                sched.count += 1
                if sched.count >= sched.quantum:
                    sched.preempt(tid, frame)
            return local

        def glob(frame, event, arg):
            fn = frame.f_code.co_filename
            if '/fst/' in fn and '/sim/' not in fn:
                return local
            return None
        return glob

    def preempt(self, tid, frame=None):
        runnable = [i for i in range(self.n) if not self.done[i]]
        if not runnable:
            return
        t, q = self.draw(runnable)
        self.quantum, self.count = q, 0
        if t != tid:
            self.switches += 1
            if frame is not None:
                self.sites[f'{frame.f_code.co_filename.rsplit("/", 1)[1]}:{frame.f_code.co_name}'] += 1
            self.current = t
            self.go[tid].clear()
            self.go[t].set()
            self.wait_turn(tid)

    def finish(self, tid):
        self.done[tid] = True
        runnable = [i for i in range(self.n) if not self.done[i]]
        if not runnable:
            self.all_done.set()
            return
        t, q = self.draw(runnable)
        self.quantum, self.count = q, 0
        self.current = t
        self.go[t].set()


def run_alone(worker):
    th = threading.Thread(target=worker.run, daemon=True)
    th.start()
    th.join(60)
    if th.is_alive():
        raise RuntimeError('alone run hung')


def run_concurrent(workers, sched):
    def body(tid, w):
        sched.wait_turn(tid)
        sys.settrace(sched.tracer(tid))
        try:
            w.run()
        finally:
            sys.settrace(None)
            sched.finish(tid)

    ths = [threading.Thread(target=body, args=(i, w), daemon=True) for i, w in enumerate(workers)]
    for th in ths:
        th.start()
    sched.start()
    for th in ths:
        th.join(60)
    if any(th.is_alive() for th in ths):
        sched.abort = True
        for e in sched.go:
            e.set()
        raise RuntimeError('concurrent run hung')


class ThreadRun:
    def __init__(self, prop, seed=None, case=None, extra=None):
        self.prop = prop
        self.seed = seed
        self.rng = random.Random(seed) if case is None else None
        self.case_in = case
        self.stats = collections.Counter()
        self.tuples = set()
        self.viol = None

    def fail(self, kind, detail, step=0):
        if self.viol is None:
            self.viol = {'kind': kind, 'step': step, 'detail': detail[:1800]}

    def run(self):
        import fst
        rng = self.rng
        if self.case_in is None:
            cfg = progen.swarm_cfg(rng, max_lines=20, n_top=(1, 4))
            n = rng.choice([2, 2, 3, 4])
            cfg['mean_quantum'] = rng.choice([5, 20, 50, 150, 500])
            programs = [progen.gen_program(rng, cfg, self.stats) for _ in range(n)]
            for j in range(n):  # something option-sensitive to work on
                if rng.random() < 0.6:
                    programs[j] = programs[j].rstrip('\n') + '\n' + rng.choice(['{a, b}', 'x = {a}', 'a < b < c', 'a and b and c', 'f({a, b}, c < d <= e)']) + '\n'
            n_ops = [rng.randint(3, 10) for _ in range(n)]
            seeds = [rng.getrandbits(48) for _ in range(n)]
            scripts = None
            plan = None
        else:
            cfg = self.case_in['config']
            programs = self.case_in['programs']
            scripts = self.case_in['scripts']
            plan = self.case_in['schedule']
            n = len(programs)
        log = []
        sched = None
        battery_before = run_battery()
        try:
            # 1. each script alone (this also generates the scripts)
            alone = []
            for i in range(n):
                if scripts is None:
                    w = Worker(programs[i], rng=random.Random(seeds[i]), n_ops=n_ops[i])
                else:
                    w = Worker(programs[i], script=scripts[i])
                run_alone(w)
                if w.error:
                    raise RuntimeError('harness error in alone run:\n' + w.error)
                alone.append(w)
            scripts_out = [w.script for w in alone]
            for i, w in enumerate(alone):
                if w.model_err:
                    self.fail('option_store_differs_from_model_alone', f'thread {i}: {w.model_err}')
            if modifying_registry():
                self.fail('lock_left_after_alone_runs', '')
                modifying_registry().clear()
            # 2. the same scripts concurrently under the seeded scheduler
            sched = Scheduler(n, rng=random.Random(rng.getrandbits(48)) if plan is None else None, plan=plan,
                              mean_quantum=cfg['mean_quantum'])
            conc = [Worker(programs[i], script=copy.deepcopy(scripts_out[i])) for i in range(n)]
            run_concurrent(conc, sched)
            for i, w in enumerate(conc):
                if w.error:
                    raise RuntimeError('harness error in concurrent run:\n' + w.error)
            self.stats['context_switches'] += sched.switches
            self.stats['traced_lines'] += sched.lines
            self.stats['fault_T1_preemptions_fired'] += sched.switches
            for k, v in sched.sites.most_common(40):
                self.tuples.add('switch_in|' + k)
            for i in range(n):
                a, c = alone[i].record, conc[i].record
                if a != c and self.viol is None:
                    j = next((k for k in range(min(len(a), len(c))) if a[k] != c[k]), min(len(a), len(c)))
                    self.fail('thread_result_differs_from_running_alone',
                              f'thread {i} op {j}: alone={a[j] if j < len(a) else None!r} concurrent={c[j] if j < len(c) else None!r}', j)
                if conc[i].model_err and self.viol is None:
                    self.fail('option_store_differs_from_model_concurrent', f'thread {i}: {conc[i].model_err}')
                for s, rec, _ in (r for r in a if len(r) == 3 and isinstance(r[1], tuple)):
                    self.stats['op_' + rec[0]] += 1
            if modifying_registry() and self.viol is None:
                self.fail('lock_left_at_quiescence', f'{len(modifying_registry())} entries')
            # 3. metamorphic twin: the same scripts with the thread's effective defaults passed explicitly on every call
            #    that takes options - a per-thread default must act exactly like the same option given to the call
            if self.viol is None:
                for i in range(n):
                    w = Worker(programs[i], script=copy.deepcopy(scripts_out[i]), explicit=True)
                    run_alone(w)
                    if w.error:
                        raise RuntimeError('harness error in explicit-options run:\n' + w.error)
                    a, e = alone[i].record, w.record
                    self.stats['explicit_twin_ops'] += len(e)
                    if a != e:
                        j = next((k for k in range(min(len(a), len(e))) if a[k] != e[k]), min(len(a), len(e)))
                        self.fail('default_option_acts_differently_from_explicit_option',
                                  f'thread {i} op {j}: relying on defaults={a[j] if j < len(a) else None!r} explicit={e[j] if j < len(e) else None!r} '
                                  f'script op={scripts_out[i][j] if j < len(scripts_out[i]) else None!r}', j)
                        break
            # 4. canary battery (once per run, main thread): nothing the scripts did may have stayed behind in process-wide state
            if self.viol is None:
                bad = battery_verdict(battery_before, run_battery())
                self.stats['battery_runs'] += 1
                if bad:
                    self.fail('option_of_an_earlier_call_still_in_effect', bad)
            log = [[w.record for w in alone], sched.decisions]
        finally:
            try:
                modifying_registry().clear()
            except Exception:
                pass
        sched_dec = sched.decisions if sched else []
        return {
            'steps': sum(len(s) for s in scripts_out), 'ok_steps': sched.switches if sched else 0, 'stats': dict(self.stats),
            'tuples': sorted(self.tuples), 'shapes': [], 'violation': self.viol,
            'digest': hashlib.sha1((repr(log) + repr(self.viol and self.viol['kind'])).encode()).hexdigest()[:16],
            'case': {'property': self.prop, 'engine': 'threadsim', 'config': cfg, 'programs': programs, 'program': programs[0],
                     'scripts': scripts_out, 'schedule': sched_dec, 'violation': self.viol, 'seed': self.seed},
        }


def engine_run(prop, seed, extra):
    return ThreadRun(prop, seed=seed, extra=extra).run()


def engine_replay(case):
    return ThreadRun(case['property'], case=case).run()


def minimise(case, fails):
    from .core import ddmin
    base = copy.deepcopy(case)
    if not fails(base):
        return case
    # shrink each script
    for i in range(len(base['scripts'])):
        def with_s(s, i=i):
            sc = copy.deepcopy(base['scripts'])
            sc[i] = s
            return dict(base, scripts=sc)
        s = ddmin(list(base['scripts'][i]), lambda s: fails(with_s(s)), 40)
        base = with_s(s)
    # shrink the schedule: merge decisions (fewer switches)
    dec = base['schedule']
    d = ddmin(list(dec), lambda d: fails(dict(base, schedule=d)), 60)
    return dict(base, schedule=d)


def signature(case):
    v = case.get('violation') or {}
    return {'kind': v.get('kind')}


def extra_evidence(prop, results):
    return {'scheduler': 'real threads, one runnable at a time; pre-emption at sys.settrace line events inside pfst source files'}
