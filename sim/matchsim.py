"""matchsim (C17, partial scope): state isolation of match() and search() under interleaving, and search == filtered walk.

Parties: several live search() generators and plain match() calls; the scheduler decides who advances.  Reference for
every party: the same call executed ALONE in a forked child (fork per party)."""

import ast
import collections
import copy
import hashlib
import os
import pickle
import random

from . import ops as O
from . import progen

PATTERNS = ['static_first_binop', 'static_first_list', 'static_first_and', 'or_backref_list', 'or_backref_binop', 'or_backref_assign', 'opt_backref_tuple', 'probe_tags', 't:Name', 't:Call', 't:Constant', 't:BinOp', 't:If', 't:Assign', 't:Attribute', 'wild', 'backref_binop',
            'call_args_star', 'list_first_rest', 'or_name_const', 'and_not', 'name_re', 'assign_backref', 'body_plus',
            'ng_star', 'mtypes', 'nested_tags', 'opt', 'compare_all', 'maybe', 'qn', 'static_tags', 'dict_all']


class Boom(Exception):
    """The injected fault: a user callback raising in the middle of a match."""


# fault patterns: tags are captured first, then a callback runs (which raises on its k-th call = aborted match, or
# performs matches of its own = re-entrant use); tag names deliberately collide with the back-references of PATTERNS
ABORT_PATTERNS = {'abort_binop': (ast.BinOp,), 'abort_list': (ast.List, ast.Tuple, ast.Set), 'abort_assign': (ast.Assign,),
                  'abort_call': (ast.Call,), 'abort_body': (ast.FunctionDef, ast.If, ast.For, ast.While, ast.With, ast.ClassDef),
                  'abort_compare': (ast.Compare,)}
REENTRANT_PATTERNS = {'reent_list': (ast.List, ast.Tuple, ast.Set), 'reent_binop': (ast.BinOp,), 'reent_assign': (ast.Assign,),
                      'reent_same_qlist': (ast.List, ast.Tuple, ast.Set), 'reent_same_call': (ast.Call,)}
# back-references whose tag may stay unset on the path taken + a probe that can only match if some tag leaked
LEAK_SENSITIVE = ['or_backref_list', 'or_backref_binop', 'or_backref_assign', 'opt_backref_tuple', 'probe_tags']


def _inner_matches():
    """Matches performed from inside a callback of an outer match (re-entrant use): complete ones and an aborted one."""
    import fst
    from fst import match as m
    out = []
    out.append(bool(fst.FST('x + x').match(m.MBinOp(left=m.M(left=...), right=m.MTAG('left')))))
    out.append(len(list(fst.FST('[[y, y], [y, z]]').search(m.MList(elts=[m.M(first=...), m.MTAG('first')])))))
    out.append(bool(fst.FST('q = q').match(m.MAssign(targets=[m.M(t=...)], value=m.MTAG('t')))))

    def boom(t):
        raise Boom()
    try:
        fst.FST('[q, r]').match(m.MList(elts=[m.M(first=...), m.MCB(boom)]))
    except Boom:
        out.append('boom')
    return out


def _seq(m, elts):
    return m.MOR(m.MList(elts=elts), m.MTuple(elts=elts), m.MSet(elts=elts))


def build_fault_pattern(name, k):
    from fst import match as m
    calls = [0]
    if name.startswith('abort_'):
        def cb(tgt):
            calls[0] += 1
            if calls[0] >= k:
                raise Boom()
            return True
    else:
        def cb(tgt):
            calls[0] += 1
            if calls[0] <= k:
                _inner_matches()
            return True
    if name.startswith('reent_same'):
        # re-entrant use of the SAME pattern object (a recursive pattern): the callback matches the very pattern it is
        # part of against a small unrelated tree, while the outer match is in the middle of a quantified sub-list
        import fst
        box = {}

        def cb2(tgt):
            calls[0] += 1
            if calls[0] <= k:
                box['p'].match(fst.FST('[q, [], r]' if 'qlist' in name else 'g(q, [], r)'))
            return True
        sub = [m.MQSTAR([m.M(first=m.MName), m.MCB(cb2)]), m.MQSTAR(rest=...)]
        box['p'] = _seq(m, sub) if 'qlist' in name else m.MCall(args=sub)
        return box['p'], calls
    cb = m.MCB(cb)
    return _fault_pattern(m, name, cb), calls


def _fault_pattern(m, name, cb):
    kind = name.split('_', 1)[1]
    if kind == 'binop':
        return m.MBinOp(left=m.M(left=...), right=m.MAND(cb, m.MTAG('left')) if name.startswith('reent') else cb)
    if kind == 'list':
        if name.startswith('reent'):
            return _seq(m, [m.M(first=...), cb, m.MQSTAR(rest=m.MTAG('first'))])
        return _seq(m, [m.M(first=...), m.MQSTAR.NG(pre=...), cb, m.MQSTAR(post=...)])
    if kind == 'assign':
        return m.MAssign(targets=[m.M(t=...)], value=m.MAND(cb, m.MTAG('t')) if name.startswith('reent') else cb)
    if kind == 'call':
        return m.MCall(func=m.M(f=...), args=[m.M(a=...), m.MQSTAR.NG(pre=...), cb, m.MQSTAR(post=...)])
    if kind == 'body':
        return m.Mstmt(body=[m.M(b=...), m.MQSTAR.NG(pre=...), cb, m.MQSTAR(post=...)])
    if kind == 'compare':
        return m.MCompare(left=m.M(l=...), comparators=[m.M(c=...), m.MQSTAR.NG(pre=...), cb, m.MQSTAR(post=...)])
    raise KeyError(name)


# compositional patterns (descriptors are JSON lists so that they can live in replay files)
_LEAF_TYPES = ['Name', 'Call', 'Constant', 'BinOp', 'FunctionDef', 'ClassDef', 'If', 'Assign', 'Attribute', 'Expr', 'arg',
               'expr', 'stmt', 'Load', 'Add', 'keyword', 'Return', 'List', 'Compare']
_MTYPES = [(['FunctionDef', 'AsyncFunctionDef', 'ClassDef'], 'name', ['f', 'A', 'g']), (['Name', 'Attribute', 'Subscript'], 'ctx', ['Load', 'Store']),
           (['Name'], 'id', ['a', 'b', 'c']), (['List', 'Tuple', 'Set'], 'elts', ['...']), (['BinOp', 'AugAssign'], 'op', ['Add', 'Mult']),
           (['Constant'], 'value', [1, 'doc']), (['FunctionDef', 'ClassDef'], None, [None])]


def gen_pattern_desc(rng, depth=0):
    r = rng.random()
    if depth < 2 and r < 0.55:
        k = rng.choice(['or', 'and', 'not', 'not', 'tag', 'stag'])
        if k == 'stag':
            return ['stag', rng.choice(['s', 'k']), rng.choice([1, 'v']), gen_pattern_desc(rng, depth + 1)]
        if k == 'not':
            return ['not', gen_pattern_desc(rng, depth + 1)]
        if k == 'tag':
            return ['tag', rng.choice(['t', 'u']), gen_pattern_desc(rng, depth + 1)]
        return [k, gen_pattern_desc(rng, depth + 1), gen_pattern_desc(rng, depth + 1)]
    k = rng.choice(['type', 'type', 'name', 'const', 'mtypes', 'mtypes', 'mtypes', 'wild', 're', 'inst'])
    if k == 'inst':  # a pure AST INSTANCE as pattern (expr_context instances match each other unless ctx=True)
        return ['inst', rng.choice(['Load', 'Store', 'Del', 'Add', 'Pass', 'And', 'Not', 'Eq'])]
    if k == 'type':
        return ['type', rng.choice(_LEAF_TYPES)]
    if k == 'name':
        return ['name', rng.choice(['a', 'b', 'c', 'f'])]
    if k == 'const':
        return ['const', rng.choice([1, 'doc', None])]
    if k == 'mtypes':
        types, fld, vals = rng.choice(_MTYPES)
        return ['mtypes', types, fld, rng.choice(vals)]
    if k == 're':
        return ['re', rng.choice(['^[ab]', 'c$', '.'])]
    return ['wild']


def build_desc(d):
    from fst import match as m
    k = d[0]
    if k == 'or':
        return m.MOR(build_desc(d[1]), build_desc(d[2]))
    if k == 'and':
        return m.MAND(build_desc(d[1]), build_desc(d[2]))
    if k == 'not':
        return m.MNOT(build_desc(d[1]))
    if k == 'tag':
        return m.M(**{d[1]: build_desc(d[2])})
    if k == 'stag':
        return m.M(build_desc(d[3]), **{d[1]: d[2]})
    if k == 'type':
        return getattr(ast, d[1])
    if k == 'inst':
        return getattr(ast, d[1])()
    if k == 'name':
        return m.MName(id=d[1])
    if k == 'const':
        return m.MConstant(value=d[1])
    if k == 're':
        return m.MName(id=m.MRE(d[1]))
    if k == 'wild':
        return ...
    if k == 'mtypes':
        types = tuple(getattr(ast, t) for t in d[1])
        if d[2] is None:
            return m.MTYPES(types)
        v = d[3]
        if d[2] in ('ctx', 'op'):
            v = getattr(ast, v)
        elif v == '...':
            v = [m.MQSTAR(e=...)]
        return m.MTYPES(types, **{d[2]: v})
    raise KeyError(k)


def build_pattern(name):
    from fst import match as m
    if isinstance(name, list):
        return build_desc(name)
    if name == 'static_first_binop':  # a static-tags-only pattern is the FIRST tag producer, a capturing sibling follows
        return m.MBinOp(left=m.M(m.MName, side='left'), right=m.MOR(m.M(rname=m.MName), m.MConstant))
    if name == 'static_first_list':
        return _seq(m, [m.M(..., pos='first'), m.MOR(m.M(second=m.MName), m.MConstant), m.MQSTAR(rest=...)])
    if name == 'static_first_and':
        return m.MAND(m.M(m.Mexpr, kind='e'), m.MOR(m.M(n=m.MName), m.MCall))
    if name == 'or_backref_list':
        return m.MList(elts=[m.MOR(m.M(first=m.MName), m.MConstant), m.MQSTAR(rest=m.MTAG('first'))])
    if name == 'or_backref_binop':
        return m.MBinOp(left=m.MOR(m.M(left=m.MName), m.MConstant, m.MCall), right=m.MTAG('left'))
    if name == 'or_backref_assign':
        return m.MAssign(targets=[m.MOR(m.M(t=m.MName), m.MAttribute, m.MSubscript)], value=m.MTAG('t'))
    if name == 'opt_backref_tuple':
        return _seq(m, [m.MQOPT(first=m.MConstant), m.MQSTAR.NG(pre=...), m.MTAG('first'), m.MQSTAR(post=...)])
    if name == 'probe_tags':
        return m.MOR(m.MTAG('t'), m.MTAG('left'), m.MTAG('first'), m.MTAG('f'), m.MTAG('b'), m.MTAG('a'), m.MTAG('l'),
                     m.MTAG('c'))
    if name.startswith('t:'):
        return getattr(ast, name[2:])
    if name == 'wild':
        return ...
    if name == 'backref_binop':
        return m.MBinOp(m.M(left=...), right=m.MTAG('left'))
    if name == 'call_args_star':
        return m.MCall(func=m.M(f=m.MName), args=[m.MQSTAR(a=...)])
    if name == 'list_first_rest':
        return m.MList(elts=[m.M(first=...), m.MQSTAR(rest=m.MTAG('first'))])
    if name == 'or_name_const':
        return m.MOR(n=m.MName, c=m.MConstant)
    if name == 'and_not':
        return m.MAND(m.MName, m.MNOT(m.MName(id='a')))
    if name == 'name_re':
        return m.MName(id=m.MRE(r'^[abv]'))
    if name == 'assign_backref':
        return m.MAssign(targets=[m.M(t=...)], value=m.MTAG('t'))
    if name == 'body_plus':
        return m.Mstmt(body=[m.MQPLUS(b=...)])
    if name == 'ng_star':
        return m.MList(elts=[m.MQSTAR.NG(pre=...), m.M(hit=m.MName), m.MQSTAR(post=...)])
    if name == 'mtypes':
        return m.MTYPES((ast.Name, ast.Attribute, ast.Subscript), ctx=ast.Load) if False else m.MOR(m.MName, m.MAttribute, m.MSubscript)
    if name == 'nested_tags':
        return m.M(m.M(m.M(node=m.MCall), add1=1), add2=2)
    if name == 'opt':
        return m.MTuple(elts=[m.MQOPT(o=m.MName), m.MQSTAR(r=...)])
    if name == 'compare_all':
        return m.MCompare(left=m.M(l=...), comparators=[m.MQSTAR(c=...)])
    if name == 'maybe':
        return m.MReturn(value=m.MMAYBE(v=m.MName))
    if name == 'qn':
        return m.MCall(args=[m.MQN(two=..., n=2)])
    if name == 'static_tags':
        return m.M(m.MConstant, kind='const', n=1)
    if name == 'dict_all':
        return m.MDict(_all=[m.MQSTAR(kv=...)])
    raise KeyError(name)


FIXTURES = ['[a, b, a]', 'a + a', 'a = a', 'f(a, b, c)', 'a < b < c', '[1, a]', '1 + a', 'b.c = b', '(1, b, 1)', '[a, a]',
            'b = b', 'if a:\n    b\n    c', '[b, a, c, d]', 'g(b, a)', 'a * b', '{a, b, a}']
NODE_CLASSES = dict(ABORT_PATTERNS, **REENTRANT_PATTERNS)
NODE_CLASSES.update({'selfast': (ast.stmt, ast.arguments, ast.Lambda, ast.Call, ast.BinOp, ast.Dict, ast.List, ast.Tuple, ast.Compare),
                     'or_backref_list': (ast.List,), 'or_backref_binop': (ast.BinOp,), 'or_backref_assign': (ast.Assign,),
                     'opt_backref_tuple': (ast.List, ast.Tuple, ast.Set)})


def render(root, v, depth=0):
    import fst
    from fst.match import FSTMatch
    if isinstance(v, FSTMatch):
        return ('M', render(root, v.matched, depth + 1), tuple(sorted((k, render(root, x, depth + 1)) for k, x in v.tags.items())))
    if isinstance(v, fst.FST):
        try:
            p = v.root.child_path(v, True) if v.a is not None else '?dead'
        except Exception:
            p = '?'
        return ('N', p, v.a.__class__.__name__ if v.a is not None else None)
    if isinstance(v, ast.AST):
        return ('A', ast.dump(v)[:80])
    if isinstance(v, (list, tuple)):
        return tuple(render(root, x, depth + 1) for x in v)
    if v is None or isinstance(v, (str, int, float, bool)):
        return v
    r = repr(v)
    import re
    return re.sub(r'0x[0-9a-f]+', '0x?', r)[:120]


def alone(fn):
    """Run fn() alone in a forked child; returns its (picklable) result."""
    r, w = os.pipe()
    pid = os.fork()
    if pid == 0:
        try:
            os.close(r)
            try:
                out = ('ok', fn())
            except BaseException as e:  # noqa
                out = ('exc', e.__class__.__name__ + ': ' + str(e)[:200])
            with os.fdopen(w, 'wb') as f:
                pickle.dump(out, f)
        finally:
            os._exit(0)
    os.close(w)
    with os.fdopen(r, 'rb') as f:
        data = f.read()
    os.waitpid(pid, 0)
    return pickle.loads(data) if data else ('exc', 'child died')


def shared_state_clean():
    from fst import match as m
    bad = []
    if m._EMPTY_LIST:
        bad.append('_EMPTY_LIST')
    if m._EMPTY_SET:
        bad.append('_EMPTY_SET')
    if m._EMPTY_DICT:
        bad.append('_EMPTY_DICT')
    return bad


class MatchRun:
    def __init__(self, prop, seed=None, case=None, extra=None):
        self.prop = prop
        self.seed = seed
        self.rng = random.Random(seed) if case is None else None
        self.case_in = case
        self.stats = collections.Counter()
        self.tuples = set()
        self.viol = None
        self.log = []

    def run(self):
        import fst
        FST = fst.FST
        rng = self.rng
        if self.case_in is None:
            cfg = progen.swarm_cfg(rng, max_lines=30, p_nonascii=0.0)
            programs = [progen.gen_program(rng, cfg, self.stats) for _ in range(rng.choice([1, 2, 2]))]
            n_gen = rng.choice([2, 2, 3, 4])
            parties = []
            # a small pattern vocabulary per run, so that the same pattern OBJECT is used by several parties
            vocab = [rng.choice(PATTERNS) if rng.random() < 0.55 else gen_pattern_desc(rng) for _ in range(rng.choice([2, 3, 4, 6]))]
            for i in range(n_gen):
                parties.append({'kind': 'search', 'tree': rng.randrange(len(programs)),
                                'pat': rng.choice(vocab),
                                'nested': rng.random() < 0.8, 'on': rng.choice(['enter', 'enter', 'leave']),
                                'back': rng.random() < 0.2, 'scope': rng.random() < 0.3})
                if parties[-1]['scope']:
                    parties[-1]['on'] = 'enter'
            n_match = rng.choice([2, 4, 8])
            for i in range(n_match):
                parties.append({'kind': 'match', 'tree': rng.randrange(len(programs)),
                                'pat': rng.choice(vocab),
                                'node': rng.randrange(10 ** 6), 'on_ast': rng.random() < 0.2})
            for i in range(rng.choice([0, 1, 2, 3])):  # 'any tree matches a pattern built from its own AST', at any point of the schedule
                parties.append({'kind': 'match', 'tree': rng.randrange(len(programs)), 'pat': 'selfast',
                                'node': rng.randrange(10 ** 6), 'on_ast': False})
            if rng.random() < 0.6:  # fault run: aborted / re-entrant matches, cancelled searches, leak-sensitive observers
                for j in range(len(programs)):  # make sure there is something for the fault patterns to bite on
                    if rng.random() < 0.7:
                        fx = list(FIXTURES)
                        rng.shuffle(fx)
                        programs[j] = programs[j].rstrip('\n') + '\n' + '\n'.join(fx[:rng.choice([2, 4, 6])]) + '\n'
                for i in range(rng.choice([1, 2, 3])):
                    t = rng.randrange(len(programs))
                    present = {n.__class__ for n in ast.walk(ast.parse(programs[t]))}
                    pool = [k for k, cl in list(ABORT_PATTERNS.items()) * 2 + list(REENTRANT_PATTERNS.items())
                            if present.intersection(cl)] or list(ABORT_PATTERNS)
                    parties.append({'kind': 'fault', 'tree': t, 'pat': rng.choice(pool),
                                    'node': rng.randrange(10 ** 6), 'k': rng.choice([1, 1, 1, 2, 3]),
                                    'via': rng.choice(['match', 'match', 'search'])})
                for i in range(rng.choice([2, 4, 6])):
                    parties.append({'kind': 'match', 'tree': rng.randrange(len(programs)), 'pat': rng.choice(LEAK_SENSITIVE),
                                    'node': rng.randrange(10 ** 6), 'on_ast': False})
                for p in parties:
                    if p['kind'] == 'search' and rng.random() < 0.3:
                        p['close_after'] = rng.choice([0, 1, 2, 3])
            sched = None
        else:
            cfg = self.case_in['config']
            programs = self.case_in['programs']
            parties = self.case_in['parties']
            sched = self.case_in['schedule']
        self.cfg, self.programs, self.parties = cfg, programs, parties
        schedule = []

        def node_of(tree, k, pat=None):
            nodes = [n for n in tree.walk(True)]
            classes = NODE_CLASSES.get(pat) if isinstance(pat, str) else None
            if classes:
                nodes = [n for n in nodes if isinstance(n.a, classes)] or nodes
            return nodes[k % len(nodes)]

        def selfast_pattern(tree, n, prog):
            """'any tree matches a pattern built from its own AST': the pattern is the corresponding node of a FRESH pure
            parse of the program (located by position in ast.walk order), never an object of the tree under test."""
            live = list(ast.walk(tree.a))
            pure = list(ast.walk(ast.parse(prog)))
            try:
                return pure[next(k for k, x in enumerate(live) if x is n.a)]
            except (StopIteration, IndexError):
                return ...

        def do_fault(tree, p, k=None):
            """An aborted (callback raises) or re-entrant (callback matches) match / search.  Returns its outcome."""
            n = node_of(tree, p['node'], p['pat'])
            pat, calls = build_fault_pattern(p['pat'], p['k'] if k is None else k)
            out = []
            try:
                if p['via'] == 'search':
                    for m in n.search(pat):
                        out.append(render(tree, m))
                else:
                    out = render(tree, n.match(pat))
            except Boom:
                out = ('BOOM', out if p['via'] == 'search' else None)
            if k is None and p['pat'].startswith('reent') and calls[0]:
                # the callbacks return True whatever they do inside: the outer outcome must be the one obtained with
                # quiet callbacks (k=0: no inner matches at all)
                quiet, _ = do_fault(tree, p, k=0)
                self.stats['reentrant_vs_quiet_checks'] += 1
                if quiet != out and self.viol is None:
                    self.viol = {'kind': 'match_result_depends_on_matches_made_in_callback', 'step': 0,
                                 'detail': f'{p!r}: with inner matches={out!r} quiet callbacks={quiet!r}'[:1200]}
            return out, calls[0]

        def party_alone(p):
            tree = FST(programs[p['tree']], 'exec')
            if p['kind'] == 'fault':
                return do_fault(tree, p)[0]
            if p['pat'] == 'selfast':
                n = node_of(tree, p['node'], p['pat'])
                return render(tree, n.match(selfast_pattern(tree, n, programs[p['tree']])))
            pat = build_pattern(p['pat'])
            if p['kind'] == 'search':
                out = []
                for m in tree.search(pat, p['nested'], on=p['on'], back=p['back'], scope=p.get('scope', False)):
                    if len(out) == p.get('close_after'):
                        break
                    out.append(render(tree, m))
                return out
            n = node_of(tree, p['node'], p['pat'])
            return render(tree, pat.match(n.a) if p.get('on_ast') and hasattr(pat, 'match') else n.match(pat))

        bad = shared_state_clean()
        if bad:
            self.viol = {'kind': 'shared_container_not_empty_at_start', 'step': 0, 'detail': repr(bad)}
        refs = []
        if self.viol is None:
            for p in parties:
                refs.append(alone(lambda p=p: party_alone(p)))
            self.stats['forked_references'] += len(refs)
            # the interleaved execution
            trees = [FST(s, 'exec') for s in programs]
            pat_objs = {}

            def pat_of(p):
                """One pattern OBJECT per distinct pattern for the whole interleaved execution (objects are reusable by
                contract); the 'alone' references always build their own in a pristine child."""
                key = repr(p['pat'])
                if key not in pat_objs:
                    pat_objs[key] = build_pattern(p['pat'])
                    self.stats['pattern_objects'] += 1
                else:
                    self.stats['pattern_object_reuses'] += 1
                return pat_objs[key]
            live = {}
            got = {i: [] for i, p in enumerate(parties) if p['kind'] == 'search'}
            done = set()
            pending_matches = [i for i, p in enumerate(parties) if p['kind'] in ('match', 'fault')]
            step = 0
            while step < 200:
                active = [i for i in got if i not in done] + pending_matches
                if not active:
                    break
                if sched is not None:
                    if step >= len(sched):
                        break
                    i = sched[step]
                    if i not in active:
                        step += 1
                        continue
                else:
                    i = rng.choice(active)
                schedule.append(i)
                step += 1
                p = parties[i]
                try:
                    if p['kind'] == 'search':
                        if i not in live:
                            live[i] = trees[p['tree']].search(pat_of(p), p['nested'], on=p['on'], back=p['back'], scope=p.get('scope', False))
                        try:
                            if len(got[i]) == p.get('close_after'):  # fault: the consumer cancels the search here
                                live[i].close()
                                self.stats['fault_search_cancelled'] += 1
                                raise StopIteration
                            m = next(live[i])
                            got[i].append(render(trees[p['tree']], m))
                        except StopIteration:
                            done.add(i)
                    elif p['kind'] == 'fault':
                        pending_matches.remove(i)
                        r, ncalls = do_fault(trees[p['tree']], p)
                        if isinstance(r, tuple) and r and r[0] == 'BOOM':
                            self.stats['fault_match_aborted_by_callback'] += 1
                        elif ncalls and p['pat'].startswith('reent'):
                            self.stats['fault_reentrant_matches_in_callback'] += 1
                        elif ncalls:
                            self.stats['fault_party_callback_ran_without_abort'] += 1
                        else:
                            self.stats['fault_party_callback_not_reached'] += 1
                        if refs[i][0] != 'ok' or refs[i][1] != r:
                            self.viol = {'kind': 'match_result_depends_on_interleaving', 'step': step,
                                         'detail': f'party {i} {p!r}: alone={refs[i]!r} interleaved={r!r}'[:1200]}
                            break
                    else:
                        pending_matches.remove(i)
                        tree = trees[p['tree']]
                        n = node_of(tree, p['node'], p['pat'])
                        pat = selfast_pattern(tree, n, programs[p['tree']]) if p['pat'] == 'selfast' else pat_of(p)
                        r = render(tree, pat.match(n.a) if p.get('on_ast') and hasattr(pat, 'match') else n.match(pat))
                        self.stats['match_calls'] += 1
                        if refs[i][0] != 'ok' or refs[i][1] != r:
                            self.viol = {'kind': 'match_result_depends_on_interleaving', 'step': step,
                                         'detail': f'party {i} {p!r}: alone={refs[i]!r} interleaved={r!r}'[:1200]}
                            break
                except Exception as e:
                    if refs[i][0] == 'exc' and refs[i][1].split(':')[0] == e.__class__.__name__:
                        done.add(i)
                        if i in pending_matches:
                            pending_matches.remove(i)
                        continue
                    self.viol = {'kind': 'raises_only_when_interleaved', 'step': step, 'detail': f'party {i} {p!r}: {O.exc_repr(e)} alone={refs[i]!r}'[:1200]}
                    break
                bad = shared_state_clean()
                if bad:
                    self.viol = {'kind': 'shared_container_polluted', 'step': step, 'detail': f'{bad!r} after party {i} {p!r}'}
                    break
            if self.viol is None:
                for i, seq in got.items():
                    if i not in done:
                        continue
                    if refs[i][0] == 'ok' and refs[i][1] != seq:
                        self.viol = {'kind': 'search_result_depends_on_interleaving', 'step': step,
                                     'detail': f'party {i} {parties[i]!r}: alone={refs[i][1]!r} interleaved={seq!r}'[:1500]}
                        break
                    self.stats['search_sequences_compared'] += 1
                    self.stats['search_yields'] += len(seq)
            # search == filtered walk on a quiescent tree
            if self.viol is None:
                for i, p in enumerate(parties):
                    if p['kind'] != 'search' or not p['nested'] or p['on'] != 'enter' or refs[i][0] != 'ok' or p.get('close_after') is not None:
                        continue
                    tree = FST(programs[p['tree']], 'exec')
                    pat = build_pattern(p['pat'])
                    want = [render(tree, n) for n in tree.walk(True, back=p['back'], scope=p.get('scope', False)) if n.match(pat)]
                    have = [m[1] for m in refs[i][1]]
                    if want != have:
                        self.viol = {'kind': 'search_differs_from_filtered_walk', 'step': step,
                                     'detail': f'{p!r}: walk+match={want!r} search={have!r}'[:1500]}
                        break
                    self.stats['filtered_walk_checks'] += 1
        self.tuples.update(f'{p["kind"]}|{p["pat"] if isinstance(p["pat"], str) else "desc:" + str(p["pat"][0])}' for p in parties)
        self.log = [schedule, [r[1] if r[0] == 'ok' else r for r in refs]]
        return {
            'steps': len(schedule), 'ok_steps': len(schedule), 'stats': dict(self.stats), 'tuples': sorted(self.tuples),
            'shapes': [], 'violation': self.viol,
            'digest': hashlib.sha1((repr(self.log) + repr(self.viol and self.viol['kind'])).encode()).hexdigest()[:16],
            'case': {'property': self.prop, 'engine': 'matchsim', 'config': cfg, 'programs': programs, 'parties': parties,
                     'schedule': schedule, 'program': programs[0], 'violation': self.viol, 'seed': self.seed},
        }


def engine_run(prop, seed, extra):
    return MatchRun(prop, seed=seed, extra=extra).run()


def engine_replay(case):
    return MatchRun(case['property'], case=case).run()


def minimise(case, fails):
    from .core import ddmin
    base = copy.deepcopy(case)
    if not fails(base):
        return case
    s = ddmin(list(base['schedule']), lambda s: fails(dict(base, schedule=s)), 100)
    return dict(base, schedule=s)


def signature(case):
    v = case.get('violation') or {}
    return {'kind': v.get('kind')}
