"""matchsim (C17, partial scope): state isolation of match() and search() under interleaving, and search == filtered walk.

Parties: several live search() generators and plain match() calls; the scheduler decides who advances.  Reference for
every party: the same call executed ALONE in a forked child (fork per party)."""

import ast
import collections
import copy
import hashlib
import os
import pickle
import random

from . import ops as O
from . import progen

PATTERNS = ['t:Name', 't:Call', 't:Constant', 't:BinOp', 't:If', 't:Assign', 't:Attribute', 'wild', 'backref_binop',
            'call_args_star', 'list_first_rest', 'or_name_const', 'and_not', 'name_re', 'assign_backref', 'body_plus',
            'ng_star', 'mtypes', 'nested_tags', 'opt', 'compare_all', 'maybe', 'qn', 'static_tags', 'dict_all']


def build_pattern(name):
    from fst import match as m
    if name.startswith('t:'):
        return getattr(ast, name[2:])
    if name == 'wild':
        return ...
    if name == 'backref_binop':
        return m.MBinOp(m.M(left=...), right=m.MTAG('left'))
    if name == 'call_args_star':
        return m.MCall(func=m.M(f=m.MName), args=[m.MQSTAR(a=...)])
    if name == 'list_first_rest':
        return m.MList(elts=[m.M(first=...), m.MQSTAR(rest=m.MTAG('first'))])
    if name == 'or_name_const':
        return m.MOR(n=m.MName, c=m.MConstant)
    if name == 'and_not':
        return m.MAND(m.MName, m.MNOT(m.MName(id='a')))
    if name == 'name_re':
        return m.MName(id=m.MRE(r'^[abv]'))
    if name == 'assign_backref':
        return m.MAssign(targets=[m.M(t=...)], value=m.MTAG('t'))
    if name == 'body_plus':
        return m.Mstmt(body=[m.MQPLUS(b=...)])
    if name == 'ng_star':
        return m.MList(elts=[m.MQSTAR.NG(pre=...), m.M(hit=m.MName), m.MQSTAR(post=...)])
    if name == 'mtypes':
        return m.MTYPES((ast.Name, ast.Attribute, ast.Subscript), ctx=ast.Load) if False else m.MOR(m.MName, m.MAttribute, m.MSubscript)
    if name == 'nested_tags':
        return m.M(m.M(m.M(node=m.MCall), add1=1), add2=2)
    if name == 'opt':
        return m.MTuple(elts=[m.MQOPT(o=m.MName), m.MQSTAR(r=...)])
    if name == 'compare_all':
        return m.MCompare(left=m.M(l=...), comparators=[m.MQSTAR(c=...)])
    if name == 'maybe':
        return m.MReturn(value=m.MMAYBE(v=m.MName))
    if name == 'qn':
        return m.MCall(args=[m.MQN(two=..., n=2)])
    if name == 'static_tags':
        return m.M(m.MConstant, kind='const', n=1)
    if name == 'dict_all':
        return m.MDict(_all=[m.MQSTAR(kv=...)])
    raise KeyError(name)


def render(root, v, depth=0):
    import fst
    from fst.match import FSTMatch
    if isinstance(v, FSTMatch):
        return ('M', render(root, v.matched, depth + 1), tuple(sorted((k, render(root, x, depth + 1)) for k, x in v.tags.items())))
    if isinstance(v, fst.FST):
        try:
            p = v.root.child_path(v, True) if v.a is not None else '?dead'
        except Exception:
            p = '?'
        return ('N', p, v.a.__class__.__name__ if v.a is not None else None)
    if isinstance(v, ast.AST):
        return ('A', ast.dump(v)[:80])
    if isinstance(v, (list, tuple)):
        return tuple(render(root, x, depth + 1) for x in v)
    if v is None or isinstance(v, (str, int, float, bool)):
        return v
    r = repr(v)
    import re
    return re.sub(r'0x[0-9a-f]+', '0x?', r)[:120]


def alone(fn):
    """Run fn() alone in a forked child; returns its (picklable) result."""
    r, w = os.pipe()
    pid = os.fork()
    if pid == 0:
        try:
            os.close(r)
            try:
                out = ('ok', fn())
            except BaseException as e:  # noqa
                out = ('exc', e.__class__.__name__ + ': ' + str(e)[:200])
            with os.fdopen(w, 'wb') as f:
                pickle.dump(out, f)
        finally:
            os._exit(0)
    os.close(w)
    with os.fdopen(r, 'rb') as f:
        data = f.read()
    os.waitpid(pid, 0)
    return pickle.loads(data) if data else ('exc', 'child died')


def shared_state_clean():
    from fst import match as m
    bad = []
    if m._EMPTY_LIST:
        bad.append('_EMPTY_LIST')
    if m._EMPTY_SET:
        bad.append('_EMPTY_SET')
    if m._EMPTY_DICT:
        bad.append('_EMPTY_DICT')
    return bad


class MatchRun:
    def __init__(self, prop, seed=None, case=None, extra=None):
        self.prop = prop
        self.seed = seed
        self.rng = random.Random(seed) if case is None else None
        self.case_in = case
        self.stats = collections.Counter()
        self.tuples = set()
        self.viol = None
        self.log = []

    def run(self):
        import fst
        FST = fst.FST
        rng = self.rng
        if self.case_in is None:
            cfg = progen.swarm_cfg(rng, max_lines=30, p_nonascii=0.0)
            programs = [progen.gen_program(rng, cfg, self.stats) for _ in range(rng.choice([1, 2, 2]))]
            n_gen = rng.choice([2, 2, 3, 4])
            parties = []
            for i in range(n_gen):
                parties.append({'kind': 'search', 'tree': rng.randrange(len(programs)), 'pat': rng.choice(PATTERNS),
                                'nested': rng.random() < 0.8, 'on': rng.choice(['enter', 'enter', 'leave']),
                                'back': rng.random() < 0.2})
            n_match = rng.choice([2, 4, 8])
            for i in range(n_match):
                parties.append({'kind': 'match', 'tree': rng.randrange(len(programs)), 'pat': rng.choice(PATTERNS),
                                'node': rng.randrange(10 ** 6), 'on_ast': rng.random() < 0.2})
            sched = None
        else:
            cfg = self.case_in['config']
            programs = self.case_in['programs']
            parties = self.case_in['parties']
            sched = self.case_in['schedule']
        self.cfg, self.programs, self.parties = cfg, programs, parties
        schedule = []

        def node_of(tree, k):
            nodes = [n for n in tree.walk(True)]
            return nodes[k % len(nodes)]

        def party_alone(p):
            tree = FST(programs[p['tree']], 'exec')
            pat = build_pattern(p['pat'])
            if p['kind'] == 'search':
                return [render(tree, m) for m in tree.search(pat, p['nested'], on=p['on'], back=p['back'])]
            n = node_of(tree, p['node'])
            return render(tree, pat.match(n.a) if p.get('on_ast') and hasattr(pat, 'match') else n.match(pat))

        bad = shared_state_clean()
        if bad:
            self.viol = {'kind': 'shared_container_not_empty_at_start', 'step': 0, 'detail': repr(bad)}
        refs = []
        if self.viol is None:
            for p in parties:
                refs.append(alone(lambda p=p: party_alone(p)))
            self.stats['forked_references'] += len(refs)
            # the interleaved execution
            trees = [FST(s, 'exec') for s in programs]
            live = {}
            got = {i: [] for i, p in enumerate(parties) if p['kind'] == 'search'}
            done = set()
            pending_matches = [i for i, p in enumerate(parties) if p['kind'] == 'match']
            step = 0
            while step < 200:
                active = [i for i in got if i not in done] + pending_matches
                if not active:
                    break
                if sched is not None:
                    if step >= len(sched):
                        break
                    i = sched[step]
                    if i not in active:
                        step += 1
                        continue
                else:
                    i = rng.choice(active)
                schedule.append(i)
                step += 1
                p = parties[i]
                try:
                    if p['kind'] == 'search':
                        if i not in live:
                            live[i] = trees[p['tree']].search(build_pattern(p['pat']), p['nested'], on=p['on'], back=p['back'])
                        try:
                            m = next(live[i])
                            got[i].append(render(trees[p['tree']], m))
                        except StopIteration:
                            done.add(i)
                    else:
                        pending_matches.remove(i)
                        tree = trees[p['tree']]
                        pat = build_pattern(p['pat'])
                        n = node_of(tree, p['node'])
                        r = render(tree, pat.match(n.a) if p.get('on_ast') and hasattr(pat, 'match') else n.match(pat))
                        self.stats['match_calls'] += 1
                        if refs[i][0] != 'ok' or refs[i][1] != r:
                            self.viol = {'kind': 'match_result_depends_on_interleaving', 'step': step,
                                         'detail': f'party {i} {p!r}: alone={refs[i]!r} interleaved={r!r}'[:1200]}
                            break
                except Exception as e:
                    if refs[i][0] == 'exc' and refs[i][1].split(':')[0] == e.__class__.__name__:
                        done.add(i)
                        if i in pending_matches:
                            pending_matches.remove(i)
                        continue
                    self.viol = {'kind': 'raises_only_when_interleaved', 'step': step, 'detail': f'party {i} {p!r}: {O.exc_repr(e)} alone={refs[i]!r}'[:1200]}
                    break
                bad = shared_state_clean()
                if bad:
                    self.viol = {'kind': 'shared_container_polluted', 'step': step, 'detail': f'{bad!r} after party {i} {p!r}'}
                    break
            if self.viol is None:
                for i, seq in got.items():
                    if i not in done:
                        continue
                    if refs[i][0] == 'ok' and refs[i][1] != seq:
                        self.viol = {'kind': 'search_result_depends_on_interleaving', 'step': step,
                                     'detail': f'party {i} {parties[i]!r}: alone={refs[i][1]!r} interleaved={seq!r}'[:1500]}
                        break
                    self.stats['search_sequences_compared'] += 1
                    self.stats['search_yields'] += len(seq)
            # search == filtered walk on a quiescent tree
            if self.viol is None:
                for i, p in enumerate(parties):
                    if p['kind'] != 'search' or not p['nested'] or p['on'] != 'enter' or refs[i][0] != 'ok':
                        continue
                    tree = FST(programs[p['tree']], 'exec')
                    pat = build_pattern(p['pat'])
                    want = [render(tree, n) for n in tree.walk(True, back=p['back']) if n.match(pat)]
                    have = [m[1] for m in refs[i][1]]
                    if want != have:
                        self.viol = {'kind': 'search_differs_from_filtered_walk', 'step': step,
                                     'detail': f'{p!r}: walk+match={want!r} search={have!r}'[:1500]}
                        break
                    self.stats['filtered_walk_checks'] += 1
        self.tuples.update(f'{p["kind"]}|{p["pat"]}' for p in parties)
        self.log = [schedule, [r[1] if r[0] == 'ok' else r for r in refs]]
        return {
            'steps': len(schedule), 'ok_steps': len(schedule), 'stats': dict(self.stats), 'tuples': sorted(self.tuples),
            'shapes': [], 'violation': self.viol,
            'digest': hashlib.sha1((repr(self.log) + repr(self.viol and self.viol['kind'])).encode()).hexdigest()[:16],
            'case': {'property': self.prop, 'engine': 'matchsim', 'config': cfg, 'programs': programs, 'parties': parties,
                     'schedule': schedule, 'program': programs[0], 'violation': self.viol, 'seed': self.seed},
        }


def engine_run(prop, seed, extra):
    return MatchRun(prop, seed=seed, extra=extra).run()


def engine_replay(case):
    return MatchRun(case['property'], case=case).run()


def minimise(case, fails):
    from .core import ddmin
    base = copy.deepcopy(case)
    if not fails(base):
        return case
    s = ddmin(list(base['schedule']), lambda s: fails(dict(base, schedule=s)), 100)
    return dict(base, schedule=s)


def signature(case):
    v = case.get('violation') or {}
    return {'kind': v.get('kind')}
