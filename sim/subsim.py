"""subsim (C18): sub()/subn() against an ast.NodeTransformer-style reference on the pure AST.

sub() is a consumer that mutates the tree it walks; user callbacks run in the middle of that process.  The simulator's
callbacks run seeded read-only query bursts over arbitrary nodes (populating caches mid-walk) and decide skips."""

import ast
import collections
import copy
import hashlib
import random

from . import ops as O
from . import progen
from .editsim import check_consistent, modifying_registry
from .model import is_unique_kind, sdump, unique_tokens

# families: name -> (kind 'expr'|'stmt', templates)
FAMILIES = {
    'Name_load': ('expr', ['log(__FST_)', '(__FST_ + 1)', '[__FST_]', 'f(__FST_, k=__FST_)', '__FST_', 'w.__FST_' if False else 'g(h(__FST_))', 'not __FST_']),
    'Call': ('expr', ['log(__FST_)', '__FST_', '(__FST_ or d)', 'g(1, __FST_, *r)', '__FST_.z']),
    'BinOp': ('expr', ['log(__FST_)', '__FST_', 'abs(__FST_)', '(__FST_) * 2']),
    'Attribute_load': ('expr', ['log(__FST_)', '__FST_', 'g(__FST_)[0]']),
    'binop_swap': ('expr', ['__FST_r + __FST_l', 'f(__FST_l, __FST_r)', '__FST_l']),
    'Return': ('stmt', ['if done:\n    __FST_', '__FST_', 'try:\n    __FST_\nfinally:\n    cleanup()', 'pass']),
    'Expr_call': ('stmt', ['if cond:\n    __FST_', '__FST_', 'with ctx():\n    __FST_', 'x = 1']),
    'Pass': ('stmt', ['pass', '__FST_', 'noop()']),
    'If': ('stmt', ['try:\n    __FST_\nfinally:\n    pass', '__FST_', 'while once:\n    __FST_\n    break']),
    'Assign': ('stmt', ['__FST_', 'if flag:\n    __FST_\nelse:\n    other()', 'with lock:\n    __FST_']),
    'unwrap_list': ('expr', ['__FST_e', '__FST_e', '(__FST_e)', 'wrap(__FST_e)']),   # [[...]] -> [...]: still matches while nested
    # a captured expression placed into non-body slots of a statement template (with-item with and without 'as', call argument)
    # quantifier (multi-node) capture over the merged, source-ordered arguments of a Call: k1 single wildcards, a
    # MQSTAR(t=...) run, k2 single wildcards; the run is placed into an argument slot of the template
    'callq_0_0': ('expr', ['kall(x, __FST_t)', 'kall(__FST_t)', 'kall(__FST_t, zz=kz)']),
    'callq_1_0': ('expr', ['kall(x, __FST_t)', 'kall(__FST_t)', 'kall(__FST_t, zz=kz)']),
    'callq_0_1': ('expr', ['kall(x, __FST_t)', 'kall(__FST_t)', 'kall(__FST_t, zz=kz)']),
    'callq_1_1': ('expr', ['kall(x, __FST_t)', 'kall(__FST_t)', 'kall(__FST_t, zz=kz)']),
    'callq_2_1': ('expr', ['kall(x, __FST_t)', 'kall(__FST_t)', 'kall(__FST_t, zz=kz)']),
    # identifier slots: a captured identifier STRING placed into identifier positions of the template (attribute name,
    # keyword name, parameter name, Name id; for patterns: keyword attribute name, rest / star / as names), mixed with
    # literal identifiers in front of and behind the slot
    'attr_ident': ('expr', ['zq.__FST_n', 'fq(__FST_n=901)', 'fq(kq=900, __FST_n=901, mq=902)', '__FST_n', 'fq(__FST_n)', '(lambda aq, __FST_n: aq)',
                            'zq.__FST_n.wq', '[__FST_n for __FST_n in zq]', '(lambda *, __FST_n=903: None)']),
    'mclass_ident': ('pattern', ['Pt(kq=900, __FST_n=vq)', 'Pt(__FST_n=vq, kq=900)', 'Pt(aq, bq=901, __FST_n=902)', '{"tk": 901, **__FST_n}',
                                 '[901, *__FST_n]', '(900 as __FST_n)', 'Pt(kq=900, mq=901, __FST_n=vq, zq=903)']),
    'assign_value': ('stmt', ['with __FST_val as handle:\n    pass', 'with __FST_val as handle:\n    pass', 'use(__FST_val)', 'other = [__FST_val, 1]']),   # (a BARE 'with __FST_x:' slot splats sequences by documented design: not used)
}


def build_pattern(fam):
    from fst import match as m
    if fam == 'Name_load':
        return m.MName(ctx=ast.Load)
    if fam == 'Call':
        return m.MCall
    if fam == 'BinOp':
        return m.MBinOp
    if fam == 'Attribute_load':
        return m.MAttribute(ctx=ast.Load)
    if fam == 'binop_swap':
        return m.MBinOp(left=m.M(l=...), right=m.M(r=...))
    if fam == 'Return':
        return m.MReturn
    if fam == 'Expr_call':
        return m.MExpr(value=m.MCall)
    if fam == 'Pass':
        return m.MPass
    if fam == 'If':
        return m.MIf
    if fam == 'Assign':
        return m.MAssign
    if fam == 'unwrap_list':
        return m.MList(elts=[m.M(e=m.MList)])
    if fam == 'attr_ident':
        return m.MAttribute(attr=m.M(n=...), ctx=ast.Load)
    if fam == 'mclass_ident':
        return m.MMatchClass(kwd_attrs=[m.M(n=...)])
    if fam.startswith('callq_'):
        k1, k2 = int(fam[6]), int(fam[8])
        return m.MCall(_args=[...] * k1 + [m.MQSTAR(t=...)] + [...] * k2)
    if fam == 'assign_value':
        return m.MAssign(value=m.M(val=m.MNOT(m.MOR(m.MYield, m.MYieldFrom, m.MStarred, m.MNamedExpr))))  # values that need no special enclosure
    raise KeyError(fam)


def ref_matches(fam, n, plain=False):
    """plain=True: the direct re-match of the `loop` option (no protection of template / already placed nodes)."""
    if not plain and (getattr(n, '_tmpl', False) or getattr(n, '_nomatch', False)):
        return False
    if fam == 'unwrap_list':
        return isinstance(n, ast.List) and len(n.elts) == 1 and isinstance(n.elts[0], ast.List)
    if fam == 'attr_ident':
        return isinstance(n, ast.Attribute) and isinstance(n.ctx, ast.Load)
    if fam == 'mclass_ident':
        return isinstance(n, ast.MatchClass) and len(n.kwd_attrs) == 1
    if fam.startswith('callq_'):
        return isinstance(n, ast.Call) and len(n.args) + len(n.keywords) >= int(fam[6]) + int(fam[8])
    if fam == 'assign_value':
        return isinstance(n, ast.Assign) and not isinstance(n.value, (ast.Yield, ast.YieldFrom, ast.Starred, ast.NamedExpr))
    if fam == 'Name_load':
        return isinstance(n, ast.Name) and isinstance(n.ctx, ast.Load)
    if fam == 'Call':
        return isinstance(n, ast.Call)
    if fam in ('BinOp', 'binop_swap'):
        return isinstance(n, ast.BinOp)
    if fam == 'Attribute_load':
        return isinstance(n, ast.Attribute) and isinstance(n.ctx, ast.Load)
    if fam == 'Return':
        return isinstance(n, ast.Return)
    if fam == 'Expr_call':
        return isinstance(n, ast.Expr) and isinstance(n.value, ast.Call)
    if fam == 'Pass':
        return isinstance(n, ast.Pass)
    if fam == 'If':
        return isinstance(n, ast.If)
    if fam == 'Assign':
        return isinstance(n, ast.Assign)
    return False


def pos_copy(node):
    """Deep copy keeping positions and marks."""
    if isinstance(node, ast.AST):
        new = node.__class__()
        for f in node._fields:
            if hasattr(node, f):
                setattr(new, f, pos_copy(getattr(node, f)))
        for a in ('lineno', 'col_offset', 'end_lineno', 'end_col_offset', '_tmpl'):
            if hasattr(node, a):
                setattr(new, a, getattr(node, a))
        return new
    if isinstance(node, list):
        return [pos_copy(x) for x in node]
    return node


def first_pos(node):
    if hasattr(node, '_tpos'):
        return node._tpos
    if hasattr(node, 'lineno'):
        return (node.lineno, node.col_offset)
    best = None
    for c in ast.walk(node):
        if hasattr(c, '_tpos'):
            p = c._tpos
        elif hasattr(c, 'lineno'):
            p = (c.lineno, c.col_offset)
        else:
            continue
        if best is None or p < best:
            best = p
    return best


def ordered_children(node, back):
    """Direct child nodes with a setter, in source order (reversed when back)."""
    kids = []
    for f in node._fields:
        v = getattr(node, f, None)
        if isinstance(v, ast.AST):
            if not isinstance(v, (ast.expr_context, ast.operator, ast.boolop, ast.unaryop, ast.cmpop)):
                kids.append((v, (node, f, None)))
        elif isinstance(v, list):
            for i, x in enumerate(v):
                if isinstance(x, ast.AST) and not isinstance(x, (ast.cmpop,)):
                    kids.append((x, (node, f, i)))
    keyed = []
    for k, where in kids:
        p = first_pos(k)
        keyed.append((p if p is not None else (10 ** 9, 0), len(keyed), k, where))
    keyed.sort(key=lambda t: (t[0], t[1]))
    if back:
        keyed.reverse()
    return [(k, where) for _, _, k, where in keyed]


class Ref:
    """Reference substitution on a pure AST."""

    def __init__(self, fam, tmpl, nested, count, on, back, skip_every, loop=False):
        self.fam, self.tmpl, self.nested, self.count, self.on, self.back = fam, tmpl, nested, count, on, back
        self.skip_every = skip_every
        self.loop = loop
        self.total = 0
        self.n = 0
        self.calls = 0
        self.done = False
        self.matched_extents = []
        self.kind = FAMILIES[fam][0]

    def fill(self, node):
        if self.kind == 'expr':
            t = ast.parse(self.tmpl, mode='eval').body
        elif self.kind == 'pattern':
            t = O.harness_ast('pattern', self.tmpl)
        else:
            t = ast.parse(self.tmpl).body[0]
        for x in ast.walk(t):
            x._tmpl = True
        if self.fam in ('attr_ident', 'mclass_ident'):
            # identifier slots: every identifier position of the template that holds the tag gets the captured string
            ident = node.attr if self.fam == 'attr_ident' else node.kwd_attrs[0]
            for x in ast.walk(t):
                for f in x._fields:
                    v = getattr(x, f, None)
                    if v == '__FST_n':
                        setattr(x, f, ident)
                    elif isinstance(v, list) and '__FST_n' in v:
                        setattr(x, f, [ident if y == '__FST_n' else y for y in v])
            return t
        used = [False]

        def slot_value(name, ph):
            tag = name[6:]
            if tag == '':
                val = node
            elif tag == 'l':
                val = node.left
            elif tag == 'r':
                val = node.right
            elif tag == 'e':
                val = node.elts[0]
            elif tag == 'val':
                val = node.value
            else:
                raise KeyError(tag)
            if getattr(val, '_placed', False):
                val = pos_copy(val)
            val._placed = True
            if tag == '':
                val._nomatch = True
            val._tpos = (ph.lineno, ph.col_offset)
            return val

        if self.kind == 'expr':
            if isinstance(t, ast.Name) and t.id.startswith('__FST_'):
                return slot_value(t.id, t)
            for parent in ast.walk(t):
                for f in parent._fields:
                    v = getattr(parent, f, None)
                    if isinstance(v, ast.Name) and v.id.startswith('__FST_'):
                        setattr(parent, f, slot_value(v.id, v))
                    elif isinstance(v, ast.Attribute) and False:
                        pass
                    elif isinstance(v, list):
                        for i, x in enumerate(v):
                            if isinstance(x, ast.Name) and x.id == '__FST_t' and self.fam.startswith('callq_'):
                                # the captured run of arguments (source order) goes where the slot is
                                k1, k2 = int(self.fam[6]), int(self.fam[8])
                                al = sorted(node.args + node.keywords, key=lambda n: (n.lineno, n.col_offset))
                                run = al[k1:len(al) - k2]
                                for k_, r in enumerate(run):
                                    r._placed = True
                                    r._tpos = (x.lineno, x.col_offset, k_)  # the run keeps its source order inside the slot
                                v[i:i + 1] = [r for r in run if not isinstance(r, ast.keyword)]
                                parent.keywords[0:0] = [r for r in run if isinstance(r, ast.keyword)]
                                break
                            if isinstance(x, ast.Name) and x.id.startswith('__FST_'):
                                v[i] = slot_value(x.id, x)
            return t
        # statement template
        if isinstance(t, ast.Expr) and isinstance(t.value, ast.Name) and t.value.id == '__FST_':
            node._nomatch = True
            return node
        for parent in ast.walk(t):
            for f in ('body', 'orelse', 'finalbody'):
                v = getattr(parent, f, None)
                if isinstance(v, list):
                    for i, x in enumerate(v):
                        if isinstance(x, ast.Expr) and isinstance(x.value, ast.Name) and x.value.id == '__FST_':
                            node._nomatch = True
                            node._tpos = (x.lineno, x.col_offset)
                            v[i] = node
        for parent in list(ast.walk(t)):  # tagged expression slots anywhere in the statement template
            if getattr(parent, '_tmpl', False) is not True:
                continue
            for f in parent._fields:
                v = getattr(parent, f, None)
                if isinstance(v, ast.Name) and v.id.startswith('__FST_') and v.id != '__FST_':
                    setattr(parent, f, slot_value(v.id, v))
                elif isinstance(v, list):
                    for i, x in enumerate(v):
                        if isinstance(x, ast.Name) and x.id.startswith('__FST_') and x.id != '__FST_':
                            v[i] = slot_value(x.id, x)
        return t

    def fill_loop(self, node):
        """Substitute at one location; with `loop` re-substitute while the result still matches (at most `loop` times,
        the budget is per location)."""
        new = self.fill(node)
        self.total += 1
        it = 1
        while self.loop is not False and it < self.loop and ref_matches(self.fam, new, plain=True):
            new = self.fill(new)
            self.total += 1
            it += 1
        return new

    def walk(self, node, where):
        if self.done:
            return
        if self.on == 'enter':
            if ref_matches(self.fam, node) and not self.skip_fstr_const(node, where):
                self.calls += 1
                skipped = self.skip_every and self.calls % self.skip_every == 0
                if not skipped:
                    if hasattr(node, 'lineno') and not getattr(node, '_tmpl', False):
                        self.matched_extents.append((node.lineno, node.col_offset, node.end_lineno, node.end_col_offset))
                    new = self.fill_loop(node)
                    self.put(where, new)
                    self.n += 1
                    if self.count and self.n >= self.count:
                        self.done = True
                        return
                    if self.nested:
                        if new is node:
                            for k, w in ordered_children(node, self.back):
                                self.walk(k, w)
                        else:
                            for k, w in ordered_children(new, self.back):
                                self.walk_new(k, w)
                    return
                if not self.nested:
                    return
            for k, w in ordered_children(node, self.back):
                self.walk(k, w)
        else:
            for k, w in ordered_children(node, self.back):
                self.walk(k, w)
                if self.done:
                    return
            if ref_matches(self.fam, node):
                self.calls += 1
                skipped = self.skip_every and self.calls % self.skip_every == 0
                if not skipped:
                    if hasattr(node, 'lineno'):
                        self.matched_extents.append((node.lineno, node.col_offset, node.end_lineno, node.end_col_offset))
                    # in leave mode the matched node is not protected (it was already left)
                    new = self.fill_loop(node)
                    node._nomatch = False
                    self.put(where, new)
                    self.n += 1
                    if self.count and self.n >= self.count:
                        self.done = True

    def walk_new(self, node, where):
        """Walk inside a freshly substituted node: template nodes never match, the placed whole match does not match
        itself, everything below placed originals is walked normally."""
        self.walk(node, where)

    def skip_fstr_const(self, node, where):
        return False

    def put(self, where, new):
        parent, f, i = where
        if i is None:
            setattr(parent, f, new)
        else:
            getattr(parent, f)[i] = new

    def run(self, tree):
        holder = ast.Module(body=[tree], type_ignores=[])
        # walk the module itself (self_=True): Module never matches
        for k, w in ordered_children(tree, self.back):
            self.walk(k, w)
            if self.done:
                break
        return tree


def strip_marks(tree):
    for n in ast.walk(tree):
        for a in ('_tmpl', '_nomatch', '_placed', '_tpos'):
            if hasattr(n, a):
                try:
                    delattr(n, a)
                except AttributeError:
                    pass
    return tree


def program_ok(src):
    t = ast.parse(src)
    for n in ast.walk(t):
        if isinstance(n, (ast.Match, ast.JoinedStr, ast.TypeAlias)):
            return False
        if isinstance(n, (ast.FunctionDef, ast.ClassDef, ast.AsyncFunctionDef)) and n.type_params:
            return False
    return True


class SubRun:
    def __init__(self, prop, seed=None, case=None, extra=None):
        self.prop = prop
        self.seed = seed
        self.rng = random.Random(seed) if case is None else None
        self.case_in = case
        self.stats = collections.Counter()
        self.tuples = set()
        self.viol = None

    def run(self):
        import fst
        from . import queries
        FST = fst.FST
        rng = self.rng
        if self.case_in is None:
            cfg = progen.swarm_cfg(rng, max_lines=30)
            cfg['unique'] = rng.random() < 0.5
            for _ in range(30):
                program = progen.gen_program(rng, cfg, self.stats)
                if program_ok(program):
                    break
            else:
                program = 'a = f(b) + c\nreturn g(a.b)\n'
            fam = rng.choice(sorted(FAMILIES))
            req = {
                'fam': fam, 'tmpl': rng.choice(FAMILIES[fam][1]), 'nested': rng.random() < 0.5,
                'count': rng.choice([0, 0, 1, 2, 3]), 'on': rng.choice(['enter', 'enter', 'leave']),
                'back': rng.random() < 0.25, 'skip_every': rng.choice([0, 0, 2, 3]),
                'burst': rng.choice([0, 1, 3]), 'burst_seed': rng.randrange(10 ** 6),
                'form': rng.choice(['src', 'src', 'fst']),
                'loop': rng.choice([False, False, 2, 3]) if fam == 'unwrap_list' or rng.random() < 0.25 else False,
            }
            if fam in ('attr_ident', 'mclass_ident'):
                req['loop'] = False
                fx = (['iq = ia.ib.ic', 'id(ie.ig, ih=ij.ik)', 'im.io = ip.ir'] if fam == 'attr_ident' else
                      ['match ms:\n    case Point(xx=px):\n        pass\n    case Qt(aa, bb=(cc)):\n        pass', 'match mt:\n    case [Rt(kk=701), {"fk": St(ll=mm)}]:\n        pass'])
                rng.shuffle(fx)
                program = program.rstrip('\n') + '\n' + '\n'.join(fx[:rng.choice([1, 2, 3])]) + '\n'
            if fam.startswith('callq_'):
                req['on'] = 'enter'  # the reference orders arguments by their original positions: parents before children
                req['loop'] = False
                fx = ['qa = qf(qb, qk=1, *qc, **qd)', 'qg(qk=1, *qb)', 'qh(qa, *qb, qk=1, *qc, **qd)', 'qi(qa, qb, qc, qd)', 'qj(qa, qk=qf(qb, *qc), *qd)',
                      'qm(qa, qk=1,\n  *qb, **qc)']
                rng.shuffle(fx)
                program = program.rstrip('\n') + '\n' + '\n'.join(fx[:rng.choice([1, 2, 4])]) + '\n'
            if req['loop']:
                req['skip_every'] = 0   # callbacks are also called for each loop iteration: keep the two features apart
                req['nested'] = False   # which nodes of an already looped location may match again is not documented
            if fam == 'unwrap_list':     # something to unwrap, at several depths and at several places
                fx = ['ux = [[[[uq]]]]', '[[up]]', 'uy = [[ua], [[ub]]]', 'ufn([[[uc, ud]]], [[[[[ue]]]]])', 'uz = [[[ur]], [[us]]]']
                rng.shuffle(fx)
                program = program.rstrip('\n') + '\n' + '\n'.join(fx[:rng.choice([2, 3, 5])]) + '\n'
            if not req['nested'] and req['on'] == 'enter':
                req['skip_every'] = req['skip_every']  # skipping without nesting: matched node is not entered (search semantics)
        else:
            cfg = self.case_in['config']
            program = self.case_in['program']
            req = self.case_in['request']
        self.cfg, self.program, self.req = cfg, program, req
        fam = req['fam']
        kind = FAMILIES[fam][0]
        old = FST.set_options(norm=True)
        log = []
        try:
            results = []
            for with_bursts in (True, False):
                root = FST(program, 'exec')
                calls = [0]
                brng = random.Random(req['burst_seed'])

                def burst():
                    if not with_bursts or not req['burst']:
                        return
                    nodes = [n for n in root.walk(True)]
                    for _ in range(req['burst']):
                        g = nodes[brng.randrange(len(nodes))]
                        try:
                            g.loc, g.bloc, g.pars(), g.own_src() if g.a is not None and g.has_own_loc else None
                            g.next(), g.prev(), g.parent, g.first_child(), g.last_child()
                        except Exception:
                            pass
                    self.stats['query_bursts'] += 1

                def cb(f):
                    calls[0] += 1
                    burst()
                    return bool(req['skip_every'] and calls[0] % req['skip_every'] == 0)

                def cb_after(f):
                    burst()

                tmpl = req['tmpl']
                repl = tmpl if req['form'] == 'src' else FST(tmpl, {'expr': 'expr', 'pattern': 'pattern'}.get(kind, 'stmt'))
                try:
                    _, n_unique, n_total = root.subn(build_pattern(fam), repl, req['nested'], count=req['count'],
                                                      on=req['on'], back=req['back'], loop=req.get('loop', False), callback=cb, callback_after=cb_after)
                except Exception as e:
                    results.append(('exc', O.exc_repr(e), None, None))
                    continue
                results.append(('ok', root.src, (n_unique, n_total), root))
            self.tuples.add(f'{fam}|{req["tmpl"][:12]}|n{int(req["nested"])}|c{req["count"]}|{req["on"]}|b{int(req["back"])}|s{req["skip_every"]}|l{req.get("loop", False)}|{results[0][0]}')
            log = [(r[0], r[1], r[2]) for r in results]
            self.judge(results, program, req)
        finally:
            FST.set_options(**old)
            try:
                modifying_registry().clear()
            except Exception:
                pass
        return {
            'steps': 1, 'ok_steps': 1 if log and log[0][0] == 'ok' else 0, 'stats': dict(self.stats), 'tuples': sorted(self.tuples),
            'shapes': [], 'violation': self.viol,
            'digest': hashlib.sha1((repr(log) + repr(self.viol and self.viol['kind'])).encode()).hexdigest()[:16],
            'case': {'property': self.prop, 'engine': 'subsim', 'config': cfg, 'program': program, 'request': req,
                     'violation': self.viol, 'seed': self.seed},
        }

    def fail(self, kind, detail):
        if self.viol is None:
            self.viol = {'kind': kind, 'step': 0, 'detail': detail[:1800]}

    def judge(self, results, program, req):
        a, b = results
        if a[0] != b[0] or a[1] != b[1] or a[2] != b[2]:
            return self.fail('result_depends_on_queries_in_callbacks', f'with bursts: {a[:3]!r} without: {b[:3]!r}')
        # reference
        tree = ast.parse(program)
        ref = Ref(req['fam'], req['tmpl'], req['nested'], req['count'], req['on'], req['back'], req['skip_every'], req.get('loop', False))
        try:
            ref.run(tree)
        except RecursionError:
            return
        want = sdump(strip_marks(tree))
        try:
            valid = ast.dump(ast.parse(ast.unparse(ast.fix_missing_locations(tree)))) == want
        except Exception:
            valid = False
        if a[0] == 'exc':
            self.stats['sub_raised'] += 1
            if valid and 'not implemented' not in a[1].lower() and ref.n > 0:
                return self.fail('sub_raises_on_valid_request', f'{a[1]} | request={req!r}')
            return
        root = a[3]
        bad = check_consistent(root)
        if bad is not None:
            if not valid:
                self.stats['reference_result_invalid_python'] += 1
                return
            return self.fail('result_violates_C01_' + bad[0], f'{bad[1]} | src={root.src[:500]!r} request={req!r}')
        if not valid:
            self.stats['reference_result_invalid_python'] += 1
            return
        got = sdump(root.a)
        if got != want:
            # a statement template that nests the match deeper re-indents its block, docstrings included (documented,
            # option `docstr`): compare again with the whitespace after newlines inside docstrings neutralised
            from .props_c03 import ddump
            if ddump(root.a) == ddump(strip_marks(tree)):
                self.stats['docstring_reindented_by_template'] += 1
                got = want
        if got != want:
            from .editsim import _first_diff
            return self.fail('result_differs_from_reference', _first_diff(want, got).replace('parsed:', 'reference:').replace('live:', 'sub():') + f' | request={req!r} src={root.src[:300]!r}')
        self.stats['structure_checks'] += 1
        if a[2] != (ref.n, ref.total):
            return self.fail('counts_differ_from_reference', f'subn={a[2]!r} reference={(ref.n, ref.total)!r} | request={req!r}')
        if req['tmpl'] == '__FST_' and sdump(ast.parse(program)) != got:
            return self.fail('identity_template_changes_structure', '')
        self.stats['substitutions'] += ref.n
        # text outside substituted nodes preserved (unique-token programs)
        if self.cfg.get('unique'):
            pre = unique_tokens(program)
            post = unique_tokens(root.src)
            if pre is not None and post is not None and len(set(pre)) == len(pre):
                import io
                import tokenize
                A = set()
                blines = [ln.encode() for ln in program.split('\n')]

                def c(lno, boff):
                    return len(blines[lno - 1][:boff].decode())
                ext = [((sl, c(sl, sc)), (el, c(el, ec))) for sl, sc, el, ec in ref.matched_extents]
                if FAMILIES[req['fam']][0] in ('expr', 'pattern'):
                    # the matched node's own grouping parentheses (and comments inside them) belong to its extent
                    from .props_c04 import Pre
                    try:
                        pre_ = Pre(program)
                        ext = [(lambda w: ((w[0], w[1]), (w[2], w[3])))(pre_.widen_over_parens(s[0], s[1], e[0], e[1])) for s, e in ext]
                    except Exception:
                        pass
                for t in tokenize.generate_tokens(io.StringIO(program).readline):
                    if is_unique_kind(t) and any(t.start >= s and t.end <= e or (t.type == tokenize.COMMENT and s <= t.start <= e) for s, e in ext):
                        A.add(t.string)
                    if t.type == tokenize.COMMENT:
                        # comments on the last line of a substituted statement belong to it (trivia 'line')
                        if any(t.start[0] == e[0] for s, e in ext):
                            A.add(t.string)
                if FAMILIES[req['fam']][0] == 'stmt':
                    # default trivia: the leading comment block of a replaced statement is selected (as in C04)
                    toks = list(tokenize.generate_tokens(io.StringIO(program).readline))
                    code_lines = set()
                    cm = {}
                    for t in toks:
                        if t.type == tokenize.COMMENT:
                            cm[t.start[0]] = t.string
                        elif t.type not in (tokenize.NL, tokenize.NEWLINE, tokenize.INDENT, tokenize.DEDENT, tokenize.ENDMARKER):
                            for ln in range(t.start[0], t.end[0] + 1):
                                code_lines.add(ln)
                    for s_, e_ in ext:
                        ln = s_[0] - 1
                        while ln >= 1 and ln not in code_lines:
                            if ln in cm:
                                A.add(cm[ln])
                            ln -= 1
                pre_set = set(pre)
                keep = [t for t in pre if t not in A]
                seen = [t for t in post if t in pre_set and t not in A]
                if seen != keep:
                    lost = [t for t in keep if t not in set(post)]
                    return self.fail('text_outside_substituted_nodes_changed', f'lost={lost[:6]!r} request={req!r} pre={program[:400]!r} post={root.src[:400]!r}')
                self.stats['token_conservation_checks'] += 1


def engine_run(prop, seed, extra):
    return SubRun(prop, seed=seed, extra=extra).run()


def engine_replay(case):
    return SubRun(case['property'], case=case).run()


def minimise(case, fails):
    base = copy.deepcopy(case)
    if not fails(base):
        return case
    for key, val in (('burst', 0), ('skip_every', 0), ('back', False), ('count', 0), ('nested', False), ('form', 'src'), ('on', 'enter')):
        r2 = dict(base['request'])
        if r2.get(key) != val:
            r2[key] = val
            c = dict(base, request=r2)
            if fails(c):
                base = c
    from .walksim import _shrink_prog
    return _shrink_prog(base, fails)


def signature(case):
    v = case.get('violation') or {}
    r = case.get('request') or {}
    return {'kind': v.get('kind'), 'fam': r.get('fam'), 'tmpl': r.get('tmpl'), 'nested': r.get('nested'), 'on': r.get('on')}
