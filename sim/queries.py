"""Read-only query set for C02 / C07: every observable answer of a node, rendered as plain comparable data.

Node-valued answers are rendered as child paths computed by harness code over the pure AST (not by pfst)."""

import ast

from .model import iter_paths, path_str

PREDICATES = ['is_mod', 'is_stmt', 'is_expr', 'is_expr_context', 'is_boolop', 'is_operator', 'is_unaryop', 'is_cmpop',
              'is_excepthandler', 'is_pattern', 'is_type_param', 'is_stmt_or_mod', 'is_stmtlike', 'is_stmtlike_or_mod',
              'is_block', 'is_block_or_mod', 'is_scope', 'is_scope_or_mod', 'is_named_scope', 'is_named_scope_or_mod',
              'is_anon_scope', 'is_funcdef', 'is_def', 'is_def_or_mod', 'is_for', 'is_with', 'is_try', 'is_import',
              'is_ftstr', 'is_ftstr_fmt', 'is__slice', 'is_root', 'is_alive', 'has_own_loc', 'has_docstr']
METHOD_PREDS = ['is_elif', 'is_parenthesized_tuple', 'is_delimited_matchseq', 'is_empty_arguments', 'is_except_star',
                'is_parenthesizable']
LOC_ATTRS = ['loc', 'bloc', 'ln', 'col', 'end_ln', 'end_col', 'bln', 'bcol', 'bend_ln', 'bend_col', 'lineno',
             'col_offset', 'end_lineno', 'end_col_offset', 'whole_loc']
NAV = ['next', 'prev', 'first_child', 'last_child', 'step_fwd', 'step_back']
PARENTS = ['parent_stmt', 'parent_stmtlike', 'parent_block', 'parent_scope', 'parent_named_scope', 'parent_non_expr',
           'parent_pattern', 'parent_ftstr']


def idmap(tree):
    """id(ast node) -> path string, for every node below (and including) tree."""
    m = {id(tree): ''}
    for path, node, _, _, _ in iter_paths(tree):
        m[id(node)] = path_str(path)
    return m


def _r(v, ids):
    """Render a value."""
    import fst
    if isinstance(v, fst.FST):
        a = v.a
        return 'N:' + ids.get(id(a), '?dead' if a is None else '?foreign')
    if isinstance(v, tuple):
        return tuple(_r(x, ids) for x in v)
    if isinstance(v, list):
        return [_r(x, ids) for x in v]
    if v is None or isinstance(v, (str, int, float, bool)):
        return v
    return repr(v)


def _q(fn, ids):
    try:
        return _r(fn(), ids)
    except Exception as e:
        return 'EXC:' + e.__class__.__name__


def query_node(f, ids, level=2):
    """All answers for one node."""
    out = {}
    for a in LOC_ATTRS:
        out[a] = _q(lambda: getattr(f, a), ids)
    out['pars'] = _q(lambda: tuple(f.pars()) + (f.pars().n,) if f.pars() is not None else None, ids)
    out['pars_ns'] = _q(lambda: tuple(f.pars(shared=False)) if f.pars(shared=False) is not None else None, ids)
    out['parent'] = _q(lambda: f.parent, ids)
    out['pfield'] = _q(lambda: tuple(f.pfield) if f.pfield is not None else None, ids)
    out['root'] = _q(lambda: f.root, ids)
    for n in NAV:
        out[n] = _q(getattr(f, n), ids)
    out['next_all'] = _q(lambda: f.next(True), ids)
    out['prev_all'] = _q(lambda: f.prev(True), ids)
    out['first_child_all'] = _q(lambda: f.first_child(True), ids)
    out['last_child_all'] = _q(lambda: f.last_child(True), ids)
    if level >= 2:
        out['own_src'] = _q(f.own_src, ids)
        for p in PREDICATES:
            out[p] = _q(lambda: getattr(f, p), ids)
        for p in METHOD_PREDS:
            out[p] = _q(getattr(f, p), ids)
        for p in PARENTS:
            out[p] = _q(getattr(f, p), ids)
        out['child_path'] = _q(lambda: f.root.child_path(f, True), ids)
        out['get_docstr'] = _q(f.get_docstr, ids)
        if isinstance(f.a, (ast.stmt,)):
            out['line_comment'] = _q(f.get_line_comment, ids)
        # views
        for fld in f.a._fields:
            if isinstance(getattr(f.a, fld, None), list):
                def view(fld=fld):
                    v = getattr(f, fld)
                    return (len(v), [x if not hasattr(x, 'a') else x for x in (v[i] for i in range(len(v)))], v.start, v.stop, tuple(v.loc) if v.loc else None)
                out['view_' + fld] = _q(view, ids)
    return out


def query_tree(root, level=2, only=None):
    """{path: answers} for every node (or only the paths in `only`)."""
    tree = root.a
    ids = idmap(tree)
    out = {}
    if only is None or '' in only:
        out[''] = query_node(root, ids, level)
    for path, node, _, _, _ in iter_paths(tree):
        ps = path_str(path)
        if only is not None and ps not in only:
            continue
        f = getattr(node, 'f', None)
        if f is None:
            out[ps] = 'NO-F'
            continue
        out[ps] = query_node(f, ids, level)
    if only is None:
        out['#walk'] = _q(lambda: [g for g in root.walk(True)], ids)
        out['#walk_back'] = _q(lambda: [g for g in root.walk(True, back=True)], ids)
        out['#walk_default'] = _q(lambda: [g for g in root.walk()], ids)
        out['#src'] = root.src
        out['#lines'] = list(root.lines)
    return out


def diff(a, b, limit=3):
    """First differences between two query_tree results."""
    out = []
    for k in a:
        if k not in b:
            out.append((k, 'missing in fresh'))
        elif a[k] != b[k]:
            if isinstance(a[k], dict) and isinstance(b[k], dict):
                for q in a[k]:
                    if a[k][q] != b[k].get(q):
                        out.append((k, q, a[k][q], b[k].get(q)))
                        if len(out) >= limit:
                            return out
            else:
                out.append((k, a[k], b[k]))
        if len(out) >= limit:
            return out
    for k in b:
        if k not in a:
            out.append((k, 'missing in live'))
            if len(out) >= limit:
                break
    return out
