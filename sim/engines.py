"""Single import point for workers: loads all plugins and exposes engine_run / engine_replay dispatching on property."""

from . import editsim
from . import props_edit  # noqa: F401  (registers plugins)
from . import props_c03  # noqa: F401
from . import props_c04  # noqa: F401
from . import props_c07  # noqa: F401
from . import props_c08  # noqa: F401
from . import props_c10  # noqa: F401
from . import reconsim
from . import walksim
from . import matchsim
from . import subsim
from . import threadsim

OTHER = {'C13': reconsim, 'C15': walksim, 'C17': matchsim, 'C18': subsim, 'C20': threadsim}


def _engine_for(prop):
    if prop in editsim.PLUGINS:
        return editsim
    if prop in OTHER:
        return OTHER[prop]
    raise KeyError(prop)


def engine_run(prop, seed, extra):
    return _engine_for(prop).engine_run(prop, seed, extra)


def engine_replay(case):
    return _engine_for(case['property']).engine_replay(case)


def minimise(case, fails):
    m = _engine_for(case['property'])
    if hasattr(m, 'minimise'):
        return m.minimise(case, fails)
    from .cli import generic_minimise
    return generic_minimise(case, fails)


def signature(case):
    m = _engine_for(case['property'])
    if hasattr(m, 'signature'):
        return m.signature(case)
    from .cli import generic_signature
    return generic_signature(case)


def extra_evidence(prop, results):
    m = _engine_for(prop)
    if hasattr(m, 'extra_evidence'):
        return m.extra_evidence(prop, results)
    return {}
