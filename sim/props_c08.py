"""C08 - putting back what was taken restores the tree; accessors read back writes."""

import ast

from . import corpus
from . import ops as O
from .editsim import Plugin, StopRun, Violation, check_consistent, modifying_registry, plugin
from .model import fdump, resolve, sdump
from .props_c07 import ndump_ml as ndump, parse_standalone


def _shape(tree):
    """Node types and positions of every node, Constant values left out."""
    return [(n.__class__.__name__, getattr(n, 'lineno', None), getattr(n, 'col_offset', None), getattr(n, 'end_lineno', None),
             getattr(n, 'end_col_offset', None)) for n in ast.walk(tree)]

def _prims(tree):
    out = []
    for n in ast.walk(tree):
        for f in n._fields:
            v = getattr(n, f, None)
            if isinstance(v, list):
                out.extend(repr(x) for x in v if not isinstance(x, ast.AST))
            elif not isinstance(v, ast.AST):
                out.append(repr(v))
    return out


KINDS = ['rt_cut_node', 'rt_cut_slice', 'rt_replace', 'own_src', 'docstr', 'line_comment']


def _not_impl(e):
    return isinstance(e, NotImplementedError) or 'not implemented' in str(e).lower()


@plugin
class C08(Plugin):
    prop = 'C08'
    n_steps = (1, 6)

    def configure(self, rng):
        cfg = super().configure(rng)
        cfg['p_edit'] = rng.choice([0.0, 0.2, 0.4])
        cfg['max_lines'] = 40
        return cfg

    def gen_op(self, rng):
        run = self.run
        tree = run.root.a
        if rng.random() < run.cfg['p_edit']:
            return O.gen_edit(rng, tree, run.cfg)
        nodes = O.all_nodes(tree)
        if not nodes:
            return None
        kind = rng.choice(KINDS)
        between = rng.choice([0, 0, 1, 3])
        if kind == 'rt_cut_node':
            path = rng.choice(nodes)[0]
            return {'k': kind, 'path': [list(p) for p in path], 'between': between, 'repeat': rng.choice([1, 1, 2, 4]),
                    'opts': O.enc_opts(O.gen_options(rng, 0.3, ('trivia', 'pars', 'pep8space', 'docstr')))}
        if kind == 'rt_cut_slice':
            lconts = []
            for path, node, _, _, _ in [((), tree, None, None, None)] + nodes:
                for f in O.list_fields(node):
                    if f != 'type_ignores':
                        lconts.append((path, f, len(getattr(node, f))))
                for f in O.VIRTUAL_FIELDS.get(node.__class__, ()):
                    lconts.append((path, f, O.virtual_len(node, f)))
            if not lconts:
                return None
            path, f, n = rng.choice(lconts)
            a, b = O.gen_bounds(rng, n, 0.05)
            return {'k': kind, 'path': [list(p) for p in path], 'field': f, 'start': a, 'stop': b, 'between': between,
                    'repeat': rng.choice([1, 1, 2]),
                    'opts': O.enc_opts(O.gen_options(rng, 0.3, ('trivia', 'pars', 'pep8space', 'docstr')))}
        if kind == 'rt_replace':
            path = rng.choice(nodes)[0]
            return {'k': kind, 'path': [list(p) for p in path], 'form': rng.choice(['copy', 'ast', 'src', 'own_src']),
                    'repeat': rng.choice([1, 1, 2, 4]), 'between': between,
                    'opts': O.enc_opts(O.gen_options(rng, 0.3, ('trivia', 'pars', 'pep8space', 'docstr', 'elif_')))}
        if kind == 'own_src':
            path = rng.choice(nodes)[0]
            return {'k': kind, 'path': [list(p) for p in path], 'whole': rng.choice([True, False])}
        if kind == 'docstr':
            c = [t for t in [((), tree, None, None, None)] + nodes
                 if isinstance(t[1], (ast.Module, ast.FunctionDef, ast.AsyncFunctionDef, ast.ClassDef))]
            path = rng.choice(c)[0]
            return {'k': kind, 'path': [list(p) for p in path], 'text': rng.choice(corpus.DOCSTR_TEXTS),
                    'reput': rng.choice([False, False, True])}
        c = [t for t in nodes if isinstance(t[1], ast.stmt)]
        if not c:
            return None
        path, node, _, _, _ = rng.choice(c)
        op = {'k': 'line_comment', 'path': [list(p) for p in path], 'text': rng.choice(corpus.COMMENT_TEXTS)}
        flds = [f for f in ('body', 'orelse', 'finalbody') if getattr(node, f, None)]
        if flds and rng.random() < 0.5:
            op['field'] = rng.choice(flds)
        return op

    # -----------------------------------------------------------------------------------------------------------------

    def after_roundtrip(self):
        """After the closing step of a round trip: an inconsistent tree is normally C01's business (collateral), but if the
        ONLY difference between the tree and a parse of its source are Constant values, the clause 'AST values always
        equal what the new source text denotes' of C08 is what failed."""
        run = self.run
        bad = check_consistent(run.root)
        if bad is None:
            if modifying_registry():
                run.core_after_ok(False)
            return
        try:
            parsed = ast.parse(run.root.src)
        except SyntaxError:
            parsed = None
        if parsed is not None:
            vals_p = _prims(parsed)   # every primitive value: Constant values, identifiers, names lists, levels ...
            vals_l = _prims(run.root.a)

            if vals_p != vals_l and len(vals_p) == len(vals_l) and _shape(parsed) == _shape(run.root.a):
                d = [(a, b) for a, b in zip(vals_l, vals_p) if a != b][:3]
                raise Violation('ast_value_differs_from_source', f'(tree value, source value): {d!r} src={run.root.src[:300]!r}')
        run.core_after_ok(False)

    def warm(self, n):
        """Deterministic 'unrelated queries' between the two halves of a round trip."""
        root = self.run.root
        i = 0
        for g in root.walk(True):
            if i >= n * 7:
                break
            try:
                g.loc, g.bloc, g.pars()
            except Exception:
                pass
            i += 1

    def apply(self, op):
        import fst
        run = self.run
        root = run.root
        k = op['k']
        if k not in KINDS:
            return super().apply(op)
        f = O.resolve_f(root, op['path'])
        opts = O.dec_opts(op.get('opts'))
        before = sdump(root.a)
        nbefore = ndump(root.a)
        if k == 'rt_cut_node':
            if f.parent is None:
                raise O.Skip('root')
            for _ in range(op['repeat']):
                f = O.resolve_f(root, op['path'])
                parent, (field, idx) = f.parent, f.pfield
                if isinstance(parent.a, ast.Raise) and field == 'exc' and parent.a.cause is not None:
                    raise O.Skip('Raise.exc with cause: deletion is coupled')
                if isinstance(parent.a, ast.ExceptHandler) and field == 'type' and parent.a.name:
                    raise O.Skip('ExceptHandler.type with name: deletion is coupled')
                psig = parent.a  # identity: on a norm collapse the wrapper is kept but carries another AST node
                n_before = len(getattr(parent.a, field)) if idx is not None else None
                if isinstance(parent.a, ast.Set) and n_before == 1:
                    raise O.Skip('emptying a Set is normalised')
                try:
                    piece = f.cut(**opts)
                except Exception as e:
                    run.stats['cut_refused'] += 1
                    self.after_refusal(before)
                    return 'cut refused: ' + O.exc_repr(e)[:60]
                run.core_after_ok(False)
                self.warm(op['between'])
                if not isinstance(piece, fst.FST):
                    raise O.Skip('primitive piece')
                if parent.a is None or parent.a is not psig:
                    run.stats['container_normalised_away'] += 1
                    raise StopRun()
                try:
                    if idx is None:
                        parent.put(piece, field=field, **opts)
                    elif len(getattr(parent.a, field)) == n_before:  # cut left a placeholder (Dict.keys, kw_defaults)
                        parent.put(piece, idx, field=field, **opts)
                    else:
                        parent.put_slice(piece, idx, idx, field, one=True, **opts)
                except Exception as e:
                    if _not_impl(e):
                        run.stats['not_implemented'] += 1
                        raise StopRun()
                    raise Violation('put_back_refused', f'{O.exc_repr(e)} after cut of {field}[{idx}]: piece={piece.src[:200]!r} tree={root.src[:300]!r}')
                self.after_roundtrip()
                if ndump(root.a) != nbefore:
                    from .editsim import _first_diff
                    raise Violation('cut_put_back_changes_structure', _first_diff(nbefore, ndump(root.a)))
                run.stats['roundtrips'] += 1
            return 'ok'
        if k == 'rt_cut_slice':
            for _ in range(op['repeat']):
                f = O.resolve_f(root, op['path'])
                fld = op['field']
                if fld == '_body' and any(isinstance(x, ast.Expr) and isinstance(x.value, ast.Constant) and isinstance(x.value.value, str) for x in f.a.body):
                    raise O.Skip('_body with string statements: docstring reinterpretation')
                n_before = O.virtual_len(f.a, fld) if fld.startswith('_') else len(getattr(f.a, fld))
                from .props_c03 import norm_slice
                ns = norm_slice(n_before, op['start'], op['stop'])
                if ns is None:
                    raise O.Skip('start>stop')
                psig = f.a  # identity, see rt_cut_node
                if isinstance(f.a, ast.Set) and (ns[1] - ns[0] == n_before or ns[1] == ns[0]):
                    raise O.Skip('emptying a Set is normalised')
                if isinstance(f.a, ast.Compare):
                    raise O.Skip('Compare slices need an explicit operator to be put back')
                try:
                    piece = f.get_slice(op['start'], op['stop'], op['field'], cut=True, **opts)
                except Exception as e:
                    run.stats['cut_refused'] += 1
                    self.after_refusal(before)
                    return 'cut refused: ' + O.exc_repr(e)[:60]
                run.core_after_ok(False)
                self.warm(op['between'])
                f = O.resolve_f(root, op['path'])
                if f.a is not psig:
                    run.stats['container_normalised_away'] += 1
                    raise StopRun()
                try:
                    f.put_slice(piece, ns[0], ns[0], op['field'], one=False, **opts)
                except Exception as e:
                    if _not_impl(e):
                        run.stats['not_implemented'] += 1
                        raise StopRun()
                    raise Violation('put_back_refused', f'{O.exc_repr(e)} after slice cut {op["field"]}[{op["start"]}:{op["stop"]}]: piece={getattr(piece, "src", piece)!r}'[:500])
                self.after_roundtrip()
                if ndump(root.a) != nbefore:
                    from .editsim import _first_diff
                    raise Violation('cut_put_back_changes_structure', _first_diff(nbefore, ndump(root.a)))
                run.stats['roundtrips'] += 1
            return 'ok'
        if k == 'rt_replace':
            if f.parent is None:
                raise O.Skip('root')
            for _ in range(op['repeat']):
                f = O.resolve_f(root, op['path'])
                form = op['form']
                if form == 'copy':
                    code = f.copy()
                elif form == 'ast':
                    t = ast.parse(root.src)
                    code = resolve(t, [tuple(p) for p in op['path']])
                    if code is None:
                        raise O.Skip('path')
                elif form == 'own_src':
                    code = f.own_src()
                else:
                    code = f.copy().src
                self.warm(op['between'])
                try:
                    f.replace(code, **opts)
                except Exception as e:
                    if _not_impl(e):
                        run.stats['not_implemented'] += 1
                        return 'not implemented'
                    self.after_refusal(before)
                    raise Violation('self_replace_refused', f'form={form}: {O.exc_repr(e)} code={getattr(code, "src", code)!r}'[:600])
                self.after_roundtrip()
                if ndump(root.a) != nbefore:
                    from .editsim import _first_diff
                    raise Violation('self_replace_changes_structure', f'form={form}: ' + _first_diff(nbefore, ndump(root.a)))
                run.stats['self_replacements'] += 1
            return 'ok'
        if k == 'own_src':
            a = f.a
            if not isinstance(a, (ast.stmt, ast.expr)) or isinstance(a, (ast.Slice, ast.Starred)):
                raise O.Skip('kind')
            in_f = False
            g = f
            while g is not None:
                if isinstance(g.a, (ast.JoinedStr, ast.FormattedValue)):
                    in_f = True
                g = g.parent
            if in_f:
                raise O.Skip('fstr')
            s = f.own_src()

            class R:
                pass
            r = R()
            r.src, r.a = s, a
            p = parse_standalone(r)
            if p == 'unparsable' or p is None:
                if isinstance(a, ast.expr) and p == 'unparsable':
                    raise Violation('own_src_does_not_parse', f'{a.__class__.__name__}: {s[:300]!r}')
                if isinstance(a, ast.stmt) and p == 'unparsable':
                    raise Violation('own_src_does_not_parse', f'{a.__class__.__name__}: {s[:300]!r}')
                raise O.Skip('wrapper')
            if ndump(p) != ndump(a):
                from .editsim import _first_diff
                raise Violation('own_src_parses_to_other_node', _first_diff(ndump(p), ndump(a)) + f' src={s[:200]!r}')
            run.stats['own_src_checks'] += 1
            return 'ok'
        if k == 'docstr':
            text = op['text']
            try:
                f.put_docstr(text, op.get('reput', False))
            except Exception as e:
                run.stats['put_docstr_refused'] += 1
                self.after_refusal(before)
                return 'refused'
            run.core_after_ok(False)
            got = f.get_docstr()
            if got != text:
                raise Violation('docstr_not_read_back', f'put={text!r} got={got!r} src={root.src[:300]!r}')
            run.stats['docstr_roundtrips'] += 1
            return 'ok'
        if k == 'line_comment':
            text = op['text']
            args = (op['field'],) if 'field' in op else ()
            try:
                f.put_line_comment(text, *args)
            except Exception as e:
                self.after_refusal(before)
                return 'refused: ' + O.exc_repr(e)[:60]
            run.core_after_ok(False)
            got = f.get_line_comment(*args)
            if text.strip() == text and '\n' not in text:
                if got != text:
                    raise Violation('line_comment_not_read_back', f'put={text!r} got={got!r} src={root.src[:300]!r}')
                run.stats['comment_roundtrips'] += 1
            return 'ok'
        raise O.Skip('kind')

    def after_refusal(self, before):
        run = self.run
        if check_consistent(run.root) is not None or modifying_registry() or sdump(run.root.a) != before:
            run.stats['collateral_c12'] += 1
            raise StopRun()

    def post_op(self, op, ctx, out):
        run = self.run
        if op['k'] in KINDS:
            if out[0] == 'exc':
                run.stats['composite_exc_' + out[1].__class__.__name__] += 1
                run.tuples.add('composite_exc|' + O.exc_repr(out[1])[:80])
                if check_consistent(run.root) is not None or modifying_registry():
                    run.stats['collateral_c12'] += 1
                    raise StopRun()
            return
        if out[0] == 'ok':
            run.core_after_ok(False)
        elif out[0] == 'exc' and (check_consistent(run.root) is not None or modifying_registry()):
            run.stats['collateral_c12'] += 1
            raise StopRun()
