"""C04 - formatting and comments outside the edited element are preserved.

Unique-token programs: every NAME/NUMBER/STRING/COMMENT token is unique, so loss, duplication and reordering of
tokens is decided exactly.  From the PRE-state only (tokenize + pure-AST positions) an upper bound is computed on what
the edit may touch: the set A of tokens that may vanish and the set L of lines that may change."""

import ast
import io
import tokenize
import unicodedata

from . import ops as O
from . import progen
from .editsim import Plugin, StopRun, Violation, check_consistent, modifying_registry, plugin
from .model import is_unique_kind, resolve


def norm_trivia(v):
    """-> (lead, trail) each in {'none', 'block', 'all', 'line'} (upper bound for ints)."""
    def base(x, lead):
        if x is True:
            return 'block' if lead else 'line'
        if x is False:
            return 'none'
        if isinstance(x, int):
            return 'all'
        s = x.rstrip('0123456789').rstrip('+-')
        plus = x != s
        if s == '':
            s = 'block' if lead else 'line'
        return s + ('+' if plus else '')
    if isinstance(v, list):
        v = tuple(v)
    if isinstance(v, tuple):
        if len(v) == 0:
            return 'none', 'none'
        if len(v) == 1:
            return 'block', base(v[0], False)
        return base(v[0], True), base(v[1], False)
    return base(v, True), 'line'


class Pre:
    """Pre-state facts."""

    def __init__(self, src):
        self.src = src
        self.lines = src.split('\n')
        self.tree = ast.parse(src)
        self.toks = [t for t in tokenize.generate_tokens(io.StringIO(src).readline)]
        blines = [ln.encode() for ln in self.lines]
        self.b2c = lambda lno, boff: len(blines[lno - 1][:boff].decode())
        # logical lines: physical line -> (first, last) physical line of its logical line
        self.logical = {}
        start = None
        for t in self.toks:
            if t.type in (tokenize.NL, tokenize.COMMENT, tokenize.INDENT, tokenize.DEDENT, tokenize.ENDMARKER):
                continue
            if start is None:
                start = t.start[0]
            if t.type == tokenize.NEWLINE:
                for ln in range(start, t.start[0] + 1):
                    self.logical[ln] = (start, t.start[0])
                start = None
        # per line: has code token?, comment token
        self.code_lines = set()
        self.comment_on = {}
        for t in self.toks:
            if t.type == tokenize.COMMENT:
                self.comment_on[t.start[0]] = t
            elif t.type not in (tokenize.NL, tokenize.NEWLINE, tokenize.INDENT, tokenize.DEDENT, tokenize.ENDMARKER) \
                    and not (t.type == tokenize.OP and t.string == ';'):
                for ln in range(t.start[0], t.end[0] + 1):
                    self.code_lines.add(ln)

    def widen_over_parens(self, sl, sc, el, ec):
        """Extend an expression extent over directly enclosing '(' ... ')' pairs (its own grouping parentheses; a sole
        call argument's call parentheses are included too, which only widens the upper bound)."""
        sig = [t for t in self.toks if t.type not in (tokenize.NL, tokenize.NEWLINE, tokenize.INDENT, tokenize.DEDENT, tokenize.COMMENT, tokenize.ENDMARKER)]
        while True:
            prev = None
            nxt = None
            for t in sig:
                if t.end <= (sl, sc):
                    prev = t
                elif t.start >= (el, ec) and nxt is None:
                    nxt = t
            if prev is not None and nxt is not None and prev.type == tokenize.OP and prev.string == '(' and nxt.type == tokenize.OP and nxt.string == ')':
                (sl, sc), (el, ec) = prev.start, nxt.end
            else:
                return sl, sc, el, ec

    def extent(self, node):
        """(sl, sc, el, ec) 1-based lines, char columns; decorators included.  Nodes without own position
        (match_case, comprehension, withitem, arguments ...): union of the children, widened to whole lines."""
        if not hasattr(node, 'lineno'):
            kids = [c for c in ast.walk(node) if hasattr(c, 'lineno')]
            if not kids:
                return None
            sl = min(k.lineno for k in kids)
            el = max(k.end_lineno for k in kids)
            if isinstance(node, ast.match_case):
                kstart = min((k.lineno, self.b2c(k.lineno, k.col_offset)) for k in kids)
                kw = [t for t in self.toks if t.type == tokenize.NAME and t.string == 'case' and t.start < kstart]
                if kw:
                    sl = kw[-1].start[0]
            first = self.lines[sl - 1]
            return sl, len(first) - len(first.lstrip()), el, len(self.lines[el - 1])
        sl, sc = node.lineno, self.b2c(node.lineno, node.col_offset)
        if getattr(node, 'decorator_list', None):
            d = node.decorator_list[0]
            sl, sc = d.lineno, 0
            dstart = (d.lineno, self.b2c(d.lineno, d.col_offset))
            ats = [t for t in self.toks if t.type == tokenize.OP and t.string == '@' and t.start < dstart]
            if ats:
                sl = ats[-1].start[0]
        return sl, sc, node.end_lineno, self.b2c(node.end_lineno, node.end_col_offset)


def elements_of(pre, op):
    """Pure-AST nodes (pre-state) the op replaces/deletes, plus the container node and a flag 'stmt level'.
    Returns (elems, container, field, emptied_optional_block) or None if unknown."""
    tree = pre.tree
    path = [tuple(p) for p in op.get('path', [])]
    node = resolve(tree, path)
    if node is None:
        return None
    k = op['k']
    if k in ('replace', 'remove', 'cut'):
        if not path:
            return None
        parent = resolve(tree, path[:-1])
        return [node], parent, path[-1][0], path[-1][1]
    field = op.get('field')
    if field is None:
        field = O.default_field(node)
    if k == 'put_docstr':
        b = getattr(node, 'body', None)
        if isinstance(b, list) and b and isinstance(b[0], ast.Expr) and isinstance(b[0].value, ast.Constant) and isinstance(b[0].value.value, str):
            return [b[0]], node, 'body', 0
        return [], node, 'body', None
    if k == 'put_line_comment':
        return 'line_comment', node, op.get('field'), None
    if field is None or field.startswith('_'):
        if isinstance(node, ast.Module):
            return None
        return [node], node, None, None  # fallback: the whole container
    val = getattr(node, field, None)
    if isinstance(val, ast.AST):
        return [val], node, field, None
    if val is None and not isinstance(val, list):
        if field in node._fields:
            return [], node, field, None
        return [node], node, None, None
    if not isinstance(val, list) or any(not isinstance(x, ast.AST) for x in val):
        return [node], node, None, None
    n = len(val)

    def one(i):
        if i == 'end' or i is None:
            return n
        if not isinstance(i, int):
            return None
        return max(0, i + n) if i < 0 else min(n, i)

    if k in ('put', 'view_setitem', 'view_delitem'):
        if 'stop' in op:
            a, b = one(op.get('idx') or 0), one(op['stop'])
        elif 'idx' in op:
            i = op['idx']
            if i == 'end':
                return [], node, field, None
            if not isinstance(i, int) or not -n <= i < n:
                return [], node, field, None
            i %= n
            return [val[i]], node, field, i
        else:
            a, b = 0, n
    elif k in ('put_slice', 'cut_slice', 'view_setslice', 'view_delslice', 'view_method'):
        a, b = one(op.get('start', 0) if op.get('start') is not None else 0), one(op.get('stop', 'end'))
        if k == 'view_method' and op.get('m') in ('insert', 'append', 'extend', 'prepend', 'prextend'):
            return [], node, field, None
    elif k in ('insert', 'append', 'extend', 'prepend', 'prextend'):
        return [], node, field, None
    elif k in ('attr_set', 'attr_del'):
        a, b = 0, n
    else:
        return [node], node, None, None
    if a is None or b is None or a > b:
        return [], node, field, None
    return val[a:b], node, field, (a, b)


def allowed(pre, op, trivia):
    """-> (A: set of token texts that may vanish, L: set of 1-based line numbers that may change) or None."""
    r = elements_of(pre, op)
    if r is None:
        return None
    elems, cont, field, where = r
    A = set()
    L = set()
    lead, trail = norm_trivia(trivia)
    nlines = len(pre.lines)

    if elems == 'line_comment':
        # the comment on the header/last line of the node
        sl, sc, el, ec = pre.extent(cont)
        for ln in range(sl, min(len(pre.lines), el + 2) + 1):
            L.add(ln)
        for ln in range(sl, el + 1):
            c = pre.comment_on.get(ln)
            if c is not None:
                A.add(_ts(c))
        return A, L

    def add_span(sl, sc, el, ec):
        for t in pre.toks:
            if t.start >= (sl, sc) and t.end <= (el, ec) and is_unique_kind(t):
                A.add(_ts(t))
            if t.type == tokenize.COMMENT and sl <= t.start[0] <= el and t.start >= (sl, sc) and (t.start[0] < el or t.start[1] < ec or True):
                # comments inside the element's line range after its start: inside own parentheses / brackets
                if t.start <= (el, ec):
                    A.add(_ts(t))
        for ln in range(sl, el + 1):
            L.add(ln)

    stmt_level = bool(elems) and all(isinstance(e, (ast.stmt, ast.ExceptHandler, ast.match_case)) for e in elems)
    # a slice is one contiguous range: everything between its first and last element is inside the edited extent
    exts = [x for x in (pre.extent(e) for e in elems) if x is not None]
    if len(exts) > 1:
        add_span(min(x[0:2] for x in exts)[0], min(x[0:2] for x in exts)[1], max(x[2:4] for x in exts)[0], max(x[2:4] for x in exts)[1])
    for e in elems:
        if isinstance(e, ast.arguments):
            # arguments own everything between the parentheses of the def / lambda header
            owner = None
            pth = [tuple(p) for p in op.get('path', [])]
            for i in range(len(pth), -1, -1):
                n_ = resolve(pre.tree, pth[:i])
                if isinstance(n_, (ast.FunctionDef, ast.AsyncFunctionDef, ast.Lambda)) and n_.args is e:
                    owner = n_
                    break
            if owner is None:
                continue
            hs = pre.extent(owner)
            cont_ = owner
            b = getattr(cont_, 'body', None)
            hend = (b[0].lineno if isinstance(b, list) and b else b.lineno if hasattr(b, 'lineno') else hs[2])
            add_span(hs[0], hs[1], hend, 0 if hend > hs[0] else hs[3])
        x = pre.extent(e)
        if x is None:
            continue
        sl, sc, el, ec = x
        if isinstance(e, (ast.expr, ast.pattern)):
            sl, sc, el, ec = pre.widen_over_parens(sl, sc, el, ec)
        if isinstance(e, ast.arg) and field in ('vararg', 'kwarg'):
            stars = [t for t in pre.toks if t.type == tokenize.OP and t.string in ('*', '**') and t.end <= (sl, sc)]
            if stars:
                sl, sc = stars[-1].start
        add_span(sl, sc, el, ec)
        # own grouping parentheses: comments between '(' and the element / the element and ')' on its lines are
        # already covered by the line range rule above; extend over directly enclosing parens on other lines
        # leading comment lines
        if lead != 'none':
            ln = sl - 1
            while ln >= 1 and ln not in pre.code_lines:
                c = pre.comment_on.get(ln)
                if c is not None:
                    A.add(_ts(c))
                L.add(ln)
                ln -= 1
        else:
            ln = sl - 1
            while ln >= 1 and ln not in pre.code_lines and not pre.lines[ln - 1].strip():
                L.add(ln)
                ln -= 1
        # trailing
        is_block = isinstance(e, (ast.FunctionDef, ast.AsyncFunctionDef, ast.ClassDef, ast.If, ast.For, ast.AsyncFor, ast.While, ast.With, ast.AsyncWith, ast.Try, ast.TryStar, ast.Match, ast.ExceptHandler, ast.match_case))
        c = pre.comment_on.get(el)
        if c is not None and c.start >= (el, ec) and (trail != 'none' or is_block):
            A.add(_ts(c))
        if trail.startswith(('block', 'all')) or True:
            ln = el + 1
            while ln <= nlines and ln not in pre.code_lines:
                cc = pre.comment_on.get(ln)
                if cc is not None:
                    if trail.startswith(('block', 'all')):
                        A.add(_ts(cc))
                        L.add(ln)
                    else:
                        break
                else:
                    L.add(ln)
                ln += 1
    # structural repairs: first/last lines of ancestors up to the enclosing statement; for statement-level edits
    # inside a block statement the whole parent statement (re-indentation by elif <-> else/if conversion, header
    # removal when an optional block is emptied)
    path = [tuple(p) for p in op.get('path', [])]
    anc = []
    for i in range(len(path), -1, -1):
        n = resolve(pre.tree, path[:i])
        if n is not None and not isinstance(n, ast.Module) and pre.extent(n) is not None:
            anc.append(n)
    if stmt_level or (not elems and field in ('body', 'orelse', 'finalbody', 'handlers', 'cases')) or op['k'] in ('put_docstr',):
        par = cont if hasattr(cont, 'lineno') else None
        if par is not None:
            sl, sc, el, ec = pre.extent(par)
            for ln in range(sl, el + 1):
                L.add(ln)
            # header comments of a section that is emptied entirely
            if isinstance(where, tuple) or where is None or True:
                lst = getattr(par, field, None) if field else None
                if isinstance(lst, list) and elems and len(elems) == len(lst) and field in ('orelse', 'finalbody', 'handlers'):
                    first = pre.extent(elems[0])[0]
                    ln = first - 1
                    while ln >= sl:
                        c = pre.comment_on.get(ln)
                        if ln in pre.code_lines and not _is_section_header(pre.lines[ln - 1]):
                            break
                        if c is not None:
                            A.add(_ts(c))
                        ln -= 1
            # an If whose orelse is a lone If (elif): conversions re-write 'elif' <-> 'else:' + 'if'
            ln = el + 1
            while ln <= nlines and ln not in pre.code_lines:
                L.add(ln)
                ln += 1
    if not stmt_level and cont is not None:
        # expression-level edit: the whole container node may be re-flowed (separators, closing delimiter, operators
        # without own position)
        c2 = cont
        if isinstance(c2, ast.arguments):
            for i in range(len(path), -1, -1):
                n_ = resolve(pre.tree, path[:i])
                if isinstance(n_, (ast.FunctionDef, ast.AsyncFunctionDef, ast.Lambda)):
                    hs = pre.extent(n_)
                    b = n_.body
                    hend = b[0].lineno if isinstance(b, list) and b else b.lineno
                    for ln in range(hs[0], hend + 1):
                        L.add(ln)
                    break
        if not hasattr(c2, 'lineno'):
            kids = [c for c in ast.walk(c2) if hasattr(c, 'lineno')]
            if kids:
                for ln in range(min(k.lineno for k in kids), max(k.end_lineno for k in kids) + 1):
                    L.add(ln)
        else:
            sl, sc, el, ec = pre.extent(c2)
            for ln in range(sl, el + 1):
                L.add(ln)
    if cont is not None and field and isinstance(getattr(cont, field, None), list):
        sibs = [x for x in getattr(cont, field) if hasattr(x, 'lineno')]
        idxs = [i for i, x in enumerate(sibs) if any(x is e for e in (elems if isinstance(elems, list) else []))]
        lo = (min(idxs) - 1) if idxs else None
        hi = (max(idxs) + 1) if idxs else None
        if not idxs:  # pure insertion: any neighbour
            for x in sibs:
                L.add(x.end_lineno)
                L.add(pre.extent(x)[0])
        else:
            if lo is not None and lo >= 0:
                L.add(sibs[lo].end_lineno)
            if hi is not None and hi < len(sibs):
                L.add(pre.extent(sibs[hi])[0])
    if isinstance(cont, ast.ExceptHandler) and field == 'type' and cont.name:
        hs = pre.extent(cont)
        for t in pre.toks:
            if t.type == tokenize.NAME and unicodedata.normalize('NFKC', t.string) == cont.name and hs[0] <= t.start[0] <= cont.body[0].lineno:  # (the tree holds the NFKC-normalized name)
                A.add(_ts(t))
    # couplings that validity forces: deleting Raise.exc deletes its cause
    if isinstance(cont, ast.Raise) and field == 'exc' and cont.cause is not None:
        sl, sc, el, ec = pre.extent(cont.cause)
        for t in pre.toks:
            if t.start >= (sl, sc) and t.end <= (el, ec) and is_unique_kind(t):
                A.add(_ts(t))
    for ln in list(L):
        lg = pre.logical.get(ln)
        if lg:
            for k in range(lg[0], lg[1] + 1):
                L.add(k)
    for n in anc:
        if isinstance(n, ast.Module):
            continue
        sl, sc, el, ec = pre.extent(n)
        L.add(sl)
        L.add(el)
        if isinstance(n, (ast.stmt, ast.ExceptHandler, ast.match_case)):
            # header lines of a block statement (everything before its first body statement)
            b = getattr(n, 'body', None)
            if isinstance(b, list) and b and hasattr(b[0], 'lineno'):
                for ln in range(sl, b[0].lineno + 1):
                    L.add(ln)
            break
    return A, L


def _is_section_header(line):
    s = line.strip()
    return s.startswith(('else', 'finally', 'except', 'elif')) and ':' in s


def family_flags(pre, op):
    """Input predicates (pre-state + request) naming the known-finding families of C04 / C07."""
    P = set()
    r = elements_of(pre, op)
    if r is None:
        return P
    elems, cont, field, where = r
    stmt_level = (isinstance(elems, list) and elems and all(isinstance(e, (ast.stmt, ast.ExceptHandler, ast.match_case)) for e in elems)) \
        or field in ('body', 'orelse', 'finalbody', 'handlers', 'cases') or op['k'] in ('put_docstr', 'put_line_comment')
    vheader = None
    if op.get('field') in ('_bases', '_args', '_all', '_attrs') and op['k'] not in ('replace', 'remove', 'cut'):
        # virtual fields whose elements are expressions: the elements sit in the brackets of the node itself (for a
        # ClassDef: in its header, i.e. everything before its first body statement)
        stmt_level = False
        if isinstance(cont, ast.ClassDef) and cont.body:
            d0 = min([cont.lineno] + [d.lineno for d in cont.decorator_list])
            vheader = (d0, 0, cont.body[0].lineno, pre.b2c(cont.body[0].lineno, cont.body[0].col_offset))
    P.add('stmt_level' if stmt_level else 'expr_level')
    if stmt_level and isinstance(elems, list) and elems and field in ('orelse', 'finalbody') and cont is not None:
        lst = getattr(cont, field, None)
        if isinstance(lst, list) and len(lst) == len(elems):
            P.add('empties_optional_block')
    if not stmt_level and cont is not None:
        x = vheader or pre.extent(cont)
        if not hasattr(cont, 'lineno') and not isinstance(cont, ast.arguments):
            # positionless container (comprehension, withitem, ...): the bracketed container is its nearest positioned ancestor
            parents = {}
            for n in ast.walk(pre.tree):
                for ch in ast.iter_child_nodes(n):
                    parents[id(ch)] = n
            anc = parents.get(id(cont))
            while anc is not None and not (hasattr(anc, 'lineno') and isinstance(anc, ast.expr)):
                anc = parents.get(id(anc))
            if anc is not None:
                x = pre.extent(anc)
                cont = anc
        if isinstance(cont, ast.arguments):  # the container is the parenthesized parameter list of the def
            lam = next((n for n in ast.walk(pre.tree) if getattr(n, 'args', None) is cont and isinstance(n, ast.Lambda)), None)
            if lam is not None:  # ... or everything between 'lambda' and the body of a Lambda (its head)
                x = (lam.lineno, pre.b2c(lam.lineno, lam.col_offset), lam.body.lineno, pre.b2c(lam.body.lineno, lam.body.col_offset))
            owner = next((n for n in ast.walk(pre.tree) if getattr(n, 'args', None) is cont and isinstance(n, (ast.FunctionDef, ast.AsyncFunctionDef))), None)
            if owner is not None:
                start = (owner.lineno, pre.b2c(owner.lineno, owner.col_offset))
                depth, open_at = 0, None
                for t in pre.toks:
                    if t.start < start or t.type != tokenize.OP:
                        continue
                    if t.string in '([{':
                        if depth == 0 and open_at is None and t.string == '(':
                            open_at = t.start
                        depth += 1
                    elif t.string in ')]}':
                        depth -= 1
                        if depth == 0 and open_at is not None:
                            x = (open_at[0], open_at[1], t.end[0], t.end[1])
                            break
        if x is None and op.get('path'):
            par = resolve(pre.tree, [tuple(p) for p in op['path'][:-1]])
            x = pre.extent(par) if par is not None and not isinstance(par, ast.Module) else None
        if x is not None:
            sl, sc, el, ec = x
            if isinstance(cont, (ast.expr, ast.arguments)):  # the brackets of a def's parameter list are the container's
                sl, sc, el, ec = pre.widen_over_parens(sl, sc, el, ec)
            if any(t.type == tokenize.COMMENT and (sl, sc) <= t.start <= (el, 10 ** 9) for t in pre.toks):
                P.add('container_holds_comments')
    return P


def uniq_tokens(src):
    try:
        tk = list(tokenize.generate_tokens(io.StringIO(src).readline))
    except (tokenize.TokenError, SyntaxError, IndentationError):
        return None
    return [_ts(t) for t in tk if is_unique_kind(t)]


def _ts(t):
    """Token text; trailing whitespace of a comment is not part of the comment."""
    return t.string.rstrip() if t.type == tokenize.COMMENT else t.string


@plugin
class C04(Plugin):
    prop = 'C04'
    n_steps = (1, 8)

    def configure(self, rng):
        cfg = super().configure(rng)
        cfg['unique'] = True
        cfg['n_perturb'] = rng.choice([(2, 8), (4, 14), (6, 18)])
        ks = cfg['perturb_kinds']
        for k in ('trailing_comment', 'ownline_comment', 'blank_line'):
            if k not in ks:
                ks.append(k)
        cfg['opt_rate'] = rng.choice([0.3, 0.6, 0.9])
        cfg['opt_allow'] = ['trivia', 'pep8space', 'elif_', 'docstr', 'pars']
        cfg['max_lines'] = 50
        if rng.random() < 0.3:
            cfg['base_opts'] = dict(cfg['base_opts'], trivia=O.enc_opts({'t': O.gen_trivia(rng)})['t'])
        cfg['forms'] = ('src', 'src', 'fst')
        cfg['p_semi'] = rng.choice([0.0, 0.1, 0.3])
        return cfg

    def start(self):
        self.counter = 0
        # base_opts was applied by the runner; decode tuple for trivia
        bo = self.run.cfg.get('base_opts') or {}
        self.default_trivia = O.dec_opts({'trivia': bo['trivia']})['trivia'] if 'trivia' in bo else True

    def run_base_opts(self):
        return O.dec_opts(self.run.cfg.get('base_opts') or {})

    def uniq(self, text, cat):
        """Make tokens of a pool snippet unique (fresh names/numbers/strings/comments)."""
        import random
        self.counter += 1
        r = random.Random(self.counter * 7919 + self.run.step)
        new = progen.rename_tokens(r, text, True, 0.1)
        if new is None:
            return text
        pfx = f'n{self.run.step}x{self.counter}y'
        # rename_tokens numbers from 1: add a per-call prefix to keep global uniqueness
        out = []
        try:
            tk = list(tokenize.generate_tokens(io.StringIO(new).readline))
        except (tokenize.TokenError, SyntaxError, IndentationError):
            return text
        off = progen.Offsets(new)
        reps = []
        for t in tk:
            if t.type == tokenize.NAME and is_unique_kind(t):
                reps.append((off.abs(t.start), off.abs(t.end), pfx + t.string))
            elif t.type == tokenize.COMMENT:
                reps.append((off.abs(t.start), off.abs(t.end), '# ' + pfx + t.string[2:]))
            elif t.type == tokenize.STRING and t.string[:1] in '\'"' and t.string[:3] not in ('"""', "'''"):
                reps.append((off.abs(t.start), off.abs(t.end), t.string[0] + pfx + t.string[1:]))
            elif t.type == tokenize.NUMBER and t.string[-1:] not in 'jJ' and '.' not in t.string:
                reps.append((off.abs(t.start), off.abs(t.end), t.string + str(self.counter) + '0' + str(self.run.step)))
        for a, b, s in sorted(reps, reverse=True):
            new = new[:a] + s + new[b:]
        return new

    def extra_sig(self):
        return {'predicates': sorted(getattr(self, 'last_P', ()))}

    def family_flags(self, pre, op):
        return family_flags(pre, op)

    def _unused(self, pre, op):
        P = set()
        r = elements_of(pre, op)
        if r is None:
            return P
        elems, cont, field, where = r
        stmt_level = (isinstance(elems, list) and elems and all(isinstance(e, (ast.stmt, ast.ExceptHandler, ast.match_case)) for e in elems)) \
            or field in ('body', 'orelse', 'finalbody', 'handlers', 'cases') or op['k'] in ('put_docstr', 'put_line_comment')
        P.add('stmt_level' if stmt_level else 'expr_level')
        if not stmt_level and cont is not None:
            x = pre.extent(cont)
            if x is None and op.get('path'):
                par = resolve(pre.tree, [tuple(p) for p in op['path'][:-1]])
                x = pre.extent(par) if par is not None and not isinstance(par, ast.Module) else None
            if x is not None:
                sl, sc, el, ec = x
                if isinstance(cont, ast.expr):
                    sl, sc, el, ec = pre.widen_over_parens(sl, sc, el, ec)
                if any(t.type == tokenize.COMMENT and (sl, sc) <= t.start <= (el, 10 ** 9) for t in pre.toks):
                    P.add('container_holds_comments')
        return P

    def gen_op(self, rng):
        run = self.run
        cfg = dict(run.cfg, uniq=self.uniq)
        if rng.random() < run.cfg.get('p_semi', 0):
            # statements that share a line through ';' take separate code paths in the statement editor: aim at one of
            # them, with a trivia value from the whole grammar (trailing '+N' forms included)
            lines = run.root.src.split('\n')
            c = []
            for path, node, parent, field, idx in O.all_nodes(run.root.a):
                if isinstance(node, ast.stmt) and idx is not None and 0 < node.lineno <= len(lines):
                    ln = lines[node.lineno - 1]
                    before = ln.encode()[:node.col_offset].decode(errors='ignore').rstrip()
                    after = lines[node.end_lineno - 1].encode()[node.end_col_offset:].decode(errors='ignore').lstrip() if node.end_lineno <= len(lines) else ''
                    if before.endswith(';') or after.startswith(';'):
                        c.append(path)
            blocks = []  # a new else: / finally: block right after a statement line that ends in a useless ';'
            for path, node, parent, field, idx in O.all_nodes(run.root.a):
                cands = []
                if isinstance(node, (ast.For, ast.AsyncFor, ast.While, ast.If)) and not node.orelse:
                    cands.append(('orelse', node.body[-1]))
                if isinstance(node, (ast.Try, ast.TryStar)):
                    if not node.orelse and not node.finalbody and node.handlers:
                        cands.append(('orelse', node.handlers[-1].body[-1]))
                    if not node.finalbody and (node.orelse or node.handlers):
                        cands.append(('finalbody', (node.orelse or node.handlers[-1].body)[-1]))
                for fld, last in cands:
                    if hasattr(last, 'end_lineno') and not hasattr(last, 'body') and last.end_lineno <= len(lines):
                        tail = lines[last.end_lineno - 1].encode()[last.end_col_offset:].decode(errors='ignore').lstrip()
                        if tail.startswith(';'):
                            blocks.append((path, fld))
            if blocks and rng.random() < 0.5:
                path, fld = rng.choice(blocks)
                return {'k': 'put_slice', 'path': [list(p) for p in path], 'field': fld, 'start': 0, 'stop': 0, 'one': False,
                        'opts': O.enc_opts({'trivia': O.gen_trivia(rng)} if rng.random() < 0.5 else {}),
                        'code': O.gen_code(rng, 'stmt', 1, cfg.get('forms', ('src', 'src', 'fst')), self.uniq)}
            if c:
                path = rng.choice(c)
                k = rng.choice(['remove', 'cut', 'replace', 'replace'])
                op = {'k': k, 'path': [list(p) for p in path], 'opts': O.enc_opts({'trivia': O.gen_trivia(rng)})}
                if k == 'replace':
                    op['code'] = O.gen_code(rng, 'stmt', 1, cfg.get('forms', ('src', 'src', 'fst')), self.uniq)
                return op
        return O.gen_edit(rng, run.root.a, cfg)

    def pre_op(self, op):
        run = self.run
        src = run.root.src
        return {'src': src}

    def post_op(self, op, ctx, out):
        run = self.run
        if out[0] == 'skip':
            return
        if out[0] == 'exc':
            if check_consistent(run.root) is not None or modifying_registry():
                run.stats['collateral_c12'] += 1
                raise StopRun()
            return
        run.core_after_ok(False)
        pre_src = ctx['src']
        post_src = run.root.src
        if pre_src == post_src:
            return
        try:
            pre = Pre(pre_src)
        except (SyntaxError, tokenize.TokenError, IndentationError):
            return
        opts = O.dec_opts(op.get('opts'))
        trivia = opts.get('trivia', self.default_trivia) if 'trivia' in opts and opts['trivia'] is not None else self.default_trivia
        self.last_P = self.family_flags(pre, op)
        al = allowed(pre, op, trivia)
        if al is None:
            run.stats['window_unknown'] += 1
            return
        A, L = al
        run.stats['windows_checked'] += 1
        u_pre = [_ts(t) for t in pre.toks if is_unique_kind(t)]
        u_post = uniq_tokens(post_src)
        if u_post is None:
            return
        if len(set(u_pre)) != len(u_pre):
            run.stats['pre_not_unique'] += 1
            return
        pre_set = set(u_pre)
        keep = [t for t in u_pre if t not in A]
        seen = [t for t in u_post if t in pre_set]
        # duplication
        cnt = {}
        for t in seen:
            cnt[t] = cnt.get(t, 0) + 1
        newtoks = set()
        code = op.get('code') or {}
        if code.get('text'):
            newtoks = set(uniq_tokens(code['text']) or ())
            # a source text put to a primitive field (Constant.value = "b'b'") is stored as a str and written as its repr:
            # any string token that contains the text of the new code counts as coming from it
            newtoks |= {t for t in cnt if t[:1] in '\'"rRbBuUfF' and code['text'] in t}
        if op['k'] == 'put_docstr':
            newtoks |= {t for t in u_post if t[:1] in '\'"rRbBuU' and t not in pre_set}
            newtoks |= {t for t in cnt if t[:1] in '\'"rRbBuU'}
        if op['k'] == 'put_line_comment':
            newtoks |= {t for t in cnt if t.startswith('#')}
        dup = [t for t, c in cnt.items() if c > 1 and t not in newtoks]
        if dup:
            raise Violation('token_duplicated', f'{dup[:5]!r} | op={op.get("k")} pre={pre_src[:600]!r} post={post_src[:600]!r}')
        excl = newtoks & pre_set  # tokens of the new code that happen to equal an existing token: ambiguous, not compared
        keep = [t for t in keep if t not in excl]
        seen_keep = [t for t in seen if t not in A and t not in excl]
        if seen_keep != keep:
            lost = [t for t in keep if t not in cnt]
            if lost:
                kind = 'comment_lost' if any(t.startswith('#') for t in lost) else 'token_lost'
                raise Violation(kind, f'{lost[:5]!r} | trivia={trivia!r} pre={pre_src[:600]!r} post={post_src[:600]!r}')
            raise Violation('tokens_reordered', f'pre={pre_src[:600]!r} post={post_src[:600]!r}')
        # line-level: non-blank pre lines outside L appear byte-identical, in order
        post_lines = post_src.split('\n')
        j = 0
        for i, ln in enumerate(pre.lines, 1):
            if i in L or not ln.strip() or not ln.strip().strip(';\\ \t'):
                continue
            while j < len(post_lines) and post_lines[j] != ln:
                j += 1
            if j >= len(post_lines):
                raise Violation('line_outside_edit_changed', f'pre line {i} {ln!r} | L={sorted(L)} pre={pre_src[:600]!r} post={post_src[:600]!r}')
            j += 1
        run.stats['line_checks'] += 1
