"""editsim: sequential history machine.  Real pfst tree + reference model (ast/tokenize), op by op.

One run = program + <= N ops, every choice from one `random.Random(seed)`.  A property-specific plugin generates ops
and checks its oracle after each op.  The same code executes recorded cases (replay / shrinking) without a PRNG."""

import ast
import collections
import hashlib
import random

from . import progen
from .model import fdump, sdump, parse_full
from .ops import Skip, apply_edit, exc_repr, result_repr

PLUGINS = {}


def plugin(cls):
    PLUGINS[cls.prop] = cls
    return cls


def _sha(s):
    return hashlib.sha1(s.encode('utf-8', 'surrogatepass')).hexdigest()[:16]


class Violation(Exception):
    def __init__(self, kind, detail):
        self.kind = kind
        self.detail = detail


def check_consistent(root):
    """C01 oracle.  Returns None if source parses to exactly the live tree, else (kind, detail)."""
    src = root.src
    try:
        ref = ast.parse(src)
    except (SyntaxError, ValueError) as e:
        return 'unparsable', f'{e.__class__.__name__}: {e}'[:200]
    except RecursionError:
        return None
    live = root.a
    if not isinstance(live, ast.Module):
        return 'root_type', live.__class__.__name__
    d1 = fdump(ref)
    try:
        d2 = fdump(live)
    except Exception as e:
        return 'live_dump_failed', exc_repr(e)
    if d1 == d2:
        return None
    s1 = sdump(ref)
    s2 = sdump(live)
    if s1 != s2:
        return 'structure', _first_diff(s1, s2)
    return 'positions', _first_diff(d1, d2)


def _first_diff(a, b):
    n = min(len(a), len(b))
    i = 0
    while i < n and a[i] == b[i]:
        i += 1
    return f'parsed: ...{a[max(0, i - 60):i + 60]!r} live: ...{b[max(0, i - 60):i + 60]!r}'


def modifying_registry():
    from fst import fst_core
    return fst_core._MODIFYING


class EditRun:
    def __init__(self, prop, seed=None, case=None, extra=None):
        self.prop = prop
        self.plugin = PLUGINS[prop](self)
        self.extra = extra or {}
        self.replaying = case is not None
        self.rng = random.Random(seed) if case is None else None
        self.seed = seed
        self.case_in = case
        self.stats = collections.Counter()
        self.tuples = set()
        self.shapes = set()
        self.log = []
        self.ops = []
        self.viol = None
        self.held = {}
        self.step = 0

    # -- main ---------------------------------------------------------------------------------------------------------

    def run(self):
        import fst
        FST = fst.FST
        pl = self.plugin
        if self.replaying:
            cfg = dict(self.case_in['config'])
            program = self.case_in['program']
        else:
            cfg = pl.configure(self.rng)
            program = pl.program(self.rng, cfg)
        self.cfg = cfg
        self.program = program
        from .ops import dec_opts
        base_opts = dec_opts(cfg.get('base_opts') or {})
        old = FST.set_options(**base_opts) if base_opts else {}
        ok_steps = 0
        try:
            self.root = root = FST(program, 'exec')
            self.root_id = id(root)
            pl.start()
            n = len(self.case_in['ops']) if self.replaying else cfg['n_steps']
            for step in range(n):
                self.step = step
                if self.replaying:
                    op = self.case_in['ops'][step]
                else:
                    op = pl.gen_op(self.rng)
                    if op is None:
                        continue
                self.ops.append(op)
                self.site = self.site_of(op)
                self.site_flags = self.flags_of(op)
                try:
                    ctx = pl.pre_op(op)
                    try:
                        val = pl.apply(op)
                        out = ('ok', val)
                    except Skip as e:
                        out = ('skip', str(e))
                    except (Violation, StopRun):
                        raise
                    except RecursionError as e:
                        out = ('exc', e)
                    except Exception as e:
                        out = ('exc', e)
                    self.stats['op_' + out[0]] += 1
                    if out[0] == 'ok':
                        ok_steps += 1
                    self.note(op, out)
                    pl.post_op(op, ctx, out)
                except Violation as v:
                    self.viol = {'kind': v.kind, 'step': step, 'detail': v.detail, 'op': op, 'site': self.site_full(op)}
                    if hasattr(pl, 'extra_sig'):
                        self.viol.update(pl.extra_sig())
                    break
                except StopRun:
                    self.stopped = True
                    break
                self.log.append((_sha(repr(op)), out[0] if out[0] != 'exc' else exc_repr(out[1])[:60], _sha(root.src)))
            if self.viol is None and not getattr(self, 'stopped', False):
                try:
                    pl.finish()
                except Violation as v:
                    self.viol = {'kind': v.kind, 'step': len(self.ops), 'detail': v.detail, 'op': None}
                    if hasattr(pl, 'extra_sig'):
                        self.viol.update(pl.extra_sig())
                except StopRun:
                    pass
        finally:
            if old:
                FST.set_options(**old)
            try:
                modifying_registry().clear()
            except Exception:
                pass
        res = {
            'steps': len(self.ops), 'ok_steps': ok_steps, 'stats': dict(self.stats), 'tuples': sorted(self.tuples),
            'shapes': sorted(self.shapes), 'violation': self.viol,
            'digest': _sha(repr(self.log) + repr(self.viol and self.viol['kind'])),
            'case': self.case(),
        }
        return res

    def case(self):
        return {'property': self.prop, 'engine': 'editsim', 'config': self.cfg, 'program': self.program,
                'ops': self.ops, 'violation': self.viol, 'seed': self.seed}

    def site_of(self, op):
        """(target class, parent class, last path field) computed on the pre-op tree."""
        from .model import resolve
        try:
            path = [tuple(p) for p in op.get('path', [])]
            t = resolve(self.root.a, path)
            par = resolve(self.root.a, path[:-1]) if path else None
            return {'target': t.__class__.__name__ if t is not None else None,
                    'parent': par.__class__.__name__ if par is not None else None,
                    'pfield': path[-1][0] if path else None}
        except Exception:
            return {}

    def flags_of(self, op):
        """Named input predicates of a request, computed on the PRE-op tree by harness code (used only to identify
        known findings by call site; never to decide a violation)."""
        import ast
        from .model import resolve
        from .ops import harness_ast, node_cat
        flags = set()
        try:
            path = [tuple(p) for p in op.get('path', [])]
            tree = self.root.a
            chain = [tree]
            node = tree
            for i in range(len(path)):
                node = resolve(tree, path[:i + 1])
                if node is None:
                    return flags
                chain.append(node)
            tgt = chain[-1]
            field = op.get('field')
            if any(isinstance(w, (ast.With, ast.AsyncWith)) and len(w.items) == 1 and isinstance(w.items[0].context_expr, ast.Tuple)
                   and w.items[0].optional_vars is None for w in ast.walk(tgt)):
                flags.add('contains_with_single_tuple_item')  # family of C01-K18
            for i, n in enumerate(chain):
                if isinstance(n, ast.arguments) and i > 0 and isinstance(chain[i - 1], ast.Lambda):
                    flags.add('in_lambda_args')
                if isinstance(n, (ast.With, ast.AsyncWith)) and len(n.items) == 1 and isinstance(n.items[0].context_expr, ast.Tuple) \
                        and n.items[0].optional_vars is None and i + 1 < len(chain) and chain[i + 1] is n.items[0]:
                    flags.add('in_with_single_tuple_item')  # family of C01-K18 ('with (x, y):' parses as two items)
                if isinstance(n, ast.pattern):
                    flags.add('in_pattern')
                if isinstance(n, (ast.JoinedStr,)):
                    flags.add('in_fstring')
            if isinstance(tgt, ast.Lambda) and field in ('args', 'posonlyargs', 'kwonlyargs', 'vararg', 'kwarg', '_all'):
                flags.add('in_lambda_args')
            if isinstance(tgt, (ast.Try, ast.TryStar)):
                flags.add('try_container')
                if not tgt.handlers:
                    flags.add('try_no_handlers')
                if field in ('handlers',):
                    flags.add('try_handlers_field')
                if field in ('orelse',):
                    flags.add('try_orelse_field')
            if isinstance(tgt, ast.ExceptHandler) and op.get('k') in ('remove', 'cut', 'replace'):
                flags.add('try_handlers_field')
            ctxs = [getattr(n, 'ctx', None) for n in chain[-2:]]
            if any(isinstance(c, ast.Store) for c in ctxs):
                flags.add('store_ctx')
            if any(isinstance(c, ast.Del) for c in ctxs):
                flags.add('del_ctx')
            if isinstance(tgt, ast.Starred) or (len(chain) > 1 and isinstance(chain[-2], ast.Starred)):
                flags.add('starred')
            if isinstance(tgt, ast.Constant) and len(chain) > 1 and isinstance(chain[-2], ast.MatchValue):
                flags.add('matchvalue_constant')
            if isinstance(tgt, ast.MatchValue):
                flags.add('matchvalue')
            if isinstance(tgt, (ast.BoolOp, ast.Compare)) or (len(chain) > 1 and isinstance(chain[-2], (ast.BoolOp, ast.Compare)) and op.get('k') in ('replace',)):
                flags.add('boolop_or_compare_operand')
            if isinstance(tgt, ast.Module) or (len(chain) == 2 and isinstance(tgt, ast.stmt)):
                flags.add('module_level_stmt')
                body = tree.body
                if body and (tgt is body[-1] or isinstance(tgt, ast.Module)):
                    flags.add('touches_last_module_stmt')
            if field == '_body' or (isinstance(tgt, (ast.FunctionDef, ast.ClassDef, ast.AsyncFunctionDef, ast.Module)) and field == 'body'):
                flags.add('docstring_capable_body')
            if isinstance(tgt, (ast.Global, ast.Nonlocal)):
                flags.add('global_nonlocal')
            if isinstance(tgt, (ast.Call, ast.ClassDef)):
                pos = [(a.lineno, a.col_offset) for a in (tgt.args if isinstance(tgt, ast.Call) else tgt.bases) if isinstance(a, ast.Starred)]
                kws = [(k.lineno, k.col_offset) for k in tgt.keywords]
                if pos and kws and min(kws) < max(pos):
                    flags.add('call_has_keyword_before_starred')
            if isinstance(tgt, ast.If) and len(tgt.orelse) == 1 and isinstance(tgt.orelse[0], ast.If):
                flags.add('target_if_with_lone_if_orelse')
            import re as _re
            if _re.search(r';[ \t]*\\\n', self.root.src):
                flags.add('pre_source_has_semicolon_then_line_continuation')
            o = op.get('opts') or {}
            c0 = op.get('code') or {}
            if o.get('pars') is True and str(c0.get('text', '')).lstrip().startswith('('):
                flags.add('pars_true_with_parenthesized_source')
            # region = the top-level statement that contains the target (whole program for Module-level list ops)
            src_lines0 = self.root.src.split('\n')
            if len(chain) > 1 and hasattr(chain[1], 'lineno'):
                top = chain[1]
                lo = (top.decorator_list[0].lineno if getattr(top, 'decorator_list', None) else top.lineno) - 1
                region = src_lines0[max(0, lo - 1):top.end_lineno + 1]
            else:
                region = src_lines0
            cont = _continuation_lines(self.root.src)
            first_ln = max(0, lo - 1) if len(chain) > 1 and hasattr(chain[1], 'lineno') else 0
            if any((first_ln + i) in cont for i in range(len(region))):
                flags.add('stmt_has_line_continuation')
            code0 = op.get('code') or {}
            if code0.get('form') not in (None, 'none') and code0.get('text') is not None:
                a0 = harness_ast(code0.get('cat', 'expr'), code0['text'])
                if a0 is not None and any(isinstance(n, ast.Starred) for n in ast.walk(a0)):
                    flags.add('code_contains_starred')
                if field is not None and str(field).startswith('_') and code0.get('cat'):
                    from .ops import VIRTUAL_CAT, virtual_cat
                    wantv = VIRTUAL_CAT.get(field) or virtual_cat(tgt)
                    if wantv != code0.get('cat'):
                        flags.add('code_cross_category')
                if field is None and op.get('k') not in ('replace', 'remove', 'cut'):
                    from .ops import default_field, field_cat
                    df = default_field(tgt)
                    if df and df.startswith('_'):
                        from .ops import VIRTUAL_CAT, virtual_cat
                        if (VIRTUAL_CAT.get(df) or virtual_cat(tgt)) != code0.get('cat'):
                            flags.add('code_cross_category')
                    elif df and field_cat(tgt, df) != code0.get('cat') and field_cat(tgt, df) != 'constant':
                        flags.add('code_cross_category')
            src_lines = self.root.src.split('\n')
            for i, ln in enumerate(src_lines):
                nxt = src_lines[i + 1].strip() if i + 1 < len(src_lines) else ''
                if ln.rstrip().endswith('\\') and '#' not in ln and (not nxt or nxt.startswith('#') or nxt == '\\' or ln.strip() == '\\'):
                    flags.add('pre_source_has_dangling_line_continuation')
                    break
            code = op.get('code') or {}
            if code.get('form') not in (None, 'none') and code.get('text') is not None:
                a = harness_ast(code.get('cat', 'expr'), code['text'])
                if a is not None:
                    for n in ast.walk(a):
                        if isinstance(n, (ast.Yield, ast.YieldFrom)):
                            flags.add('code_has_yield')
                    if isinstance(a, ast.Lambda):
                        flags.add('code_is_lambda')
                    if isinstance(a, ast.Starred):
                        flags.add('code_is_starred')
                    if isinstance(a, ast.arg) and a.annotation is not None:
                        flags.add('code_is_annotated_arg')
                    if isinstance(a, (ast.IfExp, ast.NamedExpr)):
                        flags.add('code_low_precedence')
                want = None
                if field is not None and not isinstance(tgt, type(None)):
                    from .ops import field_cat
                    want = field_cat(tgt, field) if not str(field).startswith('_') else None
                elif op.get('k') == 'replace' and len(chain) > 1:
                    want = node_cat(tgt, chain[-2], path[-1][0])
                if want and code.get('cat') and want != code.get('cat') and not (want == 'constant'):
                    flags.add('code_cross_category')
        except Exception:
            pass
        return flags

    def site_full(self, op):
        from .ops import harness_ast
        s = dict(self.site or {})
        s['flags'] = sorted(self.site_flags or ())
        code = op.get('code') or {}
        if code.get('text') is not None and code.get('form') != 'none':
            a = harness_ast(code.get('cat', 'expr'), code['text'])
            s['code'] = a.__class__.__name__ if a is not None else None
        s['field'] = op.get('field')
        return s

    def note(self, op, out):
        a = None
        try:
            from .model import resolve
            a = resolve(self.root.a, [tuple(p) for p in op.get('path', [])]) if out[0] != 'skip' else None
        except Exception:
            a = None
        code = op.get('code') or {}
        outc = out[0] if out[0] != 'exc' else 'exc:' + out[1].__class__.__name__
        self.tuples.add('|'.join(str(x) for x in (op.get('k'), a.__class__.__name__ if a is not None else '-',
                                                   op.get('field', '-'), code.get('cat', '-'), code.get('form', '-'), outc)))
        if out[0] == 'ok':
            try:
                self.shapes.add(_sha(sdump(self.root.a)))
            except Exception:
                pass

    # -- helpers for plugins ------------------------------------------------------------------------------------------

    def snapshot(self):
        root = self.root
        return root.src, fdump(root.a)

    def core_after_ok(self, report):
        """Core invariants after an op that returned.  `report`: raise Violation (True) or count as collateral and
        stop the run (False)."""
        if id(self.root) != self.root_id:
            raise Violation('root_identity', 'root object changed')
        bad = check_consistent(self.root)
        if bad is not None:
            if report:
                raise Violation(bad[0], bad[1])
            self.stats['collateral_c01_' + bad[0]] += 1
            raise StopRun()
        if modifying_registry():
            if report:
                raise Violation('registry_not_empty', 'fst_core._MODIFYING not empty after a successful edit')
            self.stats['collateral_registry'] += 1
            modifying_registry().clear()
            raise StopRun()


class StopRun(Exception):
    pass


def _continuation_lines(src):
    """0-based indices of the lines that end in an explicit line continuation (a backslash that is not inside a string
    or a comment).  Falls back to 'line ends with a backslash' when the source does not tokenize."""
    import io
    import tokenize
    lines = src.split('\n')
    cand = [i for i, l in enumerate(lines) if l.rstrip(' \t').endswith('\\')]
    if not cand:
        return set()
    try:
        toks = list(tokenize.generate_tokens(io.StringIO(src).readline))
    except (tokenize.TokenError, SyntaxError, IndentationError):
        return set(cand)
    covered = set()
    for t in toks:
        if t.type in (tokenize.STRING, tokenize.COMMENT) or t.type in (getattr(tokenize, 'FSTRING_START', -1), getattr(tokenize, 'FSTRING_MIDDLE', -1), getattr(tokenize, 'FSTRING_END', -1)):
            (sl, sc), (el, ec) = t.start, t.end
            for i in cand:
                col = len(lines[i].rstrip(' \t')) - 1
                if (sl - 1, sc) <= (i, col) < (el - 1, ec):
                    covered.add(i)
    return set(cand) - covered


class Plugin:
    prop = None
    n_steps = (1, 12)

    def __init__(self, run):
        self.run = run

    def configure(self, rng):
        cfg = progen.swarm_cfg(rng)
        cfg['n_steps'] = rng.randint(*self.n_steps)
        cfg['base_opts'] = {'norm': True}
        cfg['opt_rate'] = rng.choice([0.0, 0.3, 0.6])
        cfg['p_same_cat'] = rng.choice([0.7, 0.85, 0.95])
        cfg['p_mb_prefix_all'] = rng.choice([0.0, 0.0, 0.0, 0.4])
        cfg['p_edge'] = rng.choice([0.0, 0.0, 0.1, 0.3])  # edits of a first/last element whose neighbour is on another line
        if rng.random() < 0.5:  # swarm: half of the runs use a random re-weighting of the edit kinds (some switched off)
            from .ops import DEFAULT_WEIGHTS
            w = {k: v * rng.choice([0, 0, 1, 1, 4]) for k, v in sorted(DEFAULT_WEIGHTS.items())}
            if not any(w.values()):
                w = dict(DEFAULT_WEIGHTS)
            cfg['weights'] = w
        return cfg

    def program(self, rng, cfg):
        src = progen.gen_program(rng, cfg, self.run.stats)
        if cfg.get('p_mb_prefix_all') and not cfg.get('unique'):
            # multi-byte ';' prefixes: what follows on the line has byte columns != character columns
            new = progen.mb_prefix(rng, src, cfg['p_mb_prefix_all'])
            if new != src:
                self.run.stats['mb_prefixed_programs'] += 1
                src = new
        return src

    def start(self):
        pass

    def gen_op(self, rng):
        raise NotImplementedError

    def pre_op(self, op):
        return None

    def apply(self, op):
        return apply_edit(self.run.root, op, self.run.held)

    def post_op(self, op, ctx, out):
        pass

    def finish(self):
        pass


def engine_run(prop, seed, extra):
    return EditRun(prop, seed=seed, extra=extra).run()


def engine_replay(case):
    return EditRun(case['property'], case=case).run()
