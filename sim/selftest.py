"""Self-tests of the machinery itself (not registered as property checks):

  check.py selftest determinism [Cxx ...] [--runs N]
      every engine, N run indices: digests of the event logs computed (a) twice in forked pools of 16 workers under
      PYTHONHASHSEED=0, (b) in a pool of 3 workers under PYTHONHASHSEED=12345, (c) serially in one fresh interpreter
      under PYTHONHASHSEED=987 (first quarter of the indices).  Any difference is a determinism defect of the harness.

  check.py selftest sensitivity [Sxx|Cxx ...]
      every seeded change under /verif/seeded (and the inline mutants below) is applied to a SCRATCH COPY of /repo/src
      (never to /repo), the quick check of each property in its `caught_by` list is run against the copy
      (PFST_REPO=<copy>, evidence and replay files redirected into the copy) and must exit 1 with a VIOLATION line.
      The scratch copy is removed afterwards.
"""

import glob
import json
import os
import shutil
import subprocess
import sys
import tempfile
import time

from . import core
from .specs import SPECS

CHECK = os.path.join(core.VERIF, 'check.py')

# inline mutants: (id, file below src/fst, old text, new text, properties expected to catch it)
MUTANTS = [
    ('M01-options-not-thread-local', 'fst_options.py', 'class _ThreadOptions(threading.local):', 'class _ThreadOptions:',
     ['C20']),
    ('M02-offset-does-not-flush-caches', 'fst_core.py', '            f._cache.clear()  # f._touch()\n',
     '            pass\n', ['C02']),
    ('M03-fail-keeps-modifying-registry-entry', 'fst_core.py',
     '        else:\n            del _MODIFYING[root]\n\n\n@pyver(lt=12)  # override _Modifying if py too low',
     '        else:\n            pass\n\n\n@pyver(lt=12)  # override _Modifying if py too low',
     ['C12']),
    ('M04-walk-ignores-removal-of-yielded-node', 'fst_traverse.py',
     '                if not (ast := fst_.a):  # has been deleted by the player (if replaced then this FST node will still exist but the .a will have changed)\n                    continue\n',
     '                ast = fst_.a or ast\n', ['C15']),
    ('M05-reconcile-does-not-retry-after-NodeError', 'reconcile.py',
     '        except (NodeError, SyntaxError, ValueError, NotImplementedError):  # something failed below, so replace whole AST',
     '        except (SyntaxError, NotImplementedError):  # something failed below, so replace whole AST', ['C13']),
]


def _digests(prop, n, hashseed, workers, verif_seed, lo=0):
    env = dict(os.environ, PYTHONHASHSEED=str(hashseed), PYTHONDONTWRITEBYTECODE='1', PFST_VERIF_CHILD='1',
               VERIF_SEED=str(verif_seed))
    p = subprocess.run([sys.executable, CHECK, prop, '--digest', f'{lo}-{n}', '--workers', str(workers)],
                       capture_output=True, text=True, timeout=3600, env=env, cwd=core.VERIF)
    line = [ln for ln in p.stdout.splitlines() if ln.startswith('DIGESTS ')]
    if p.returncode != 0 or not line:
        raise core.HarnessError(f'digest child failed for {prop}: ' + p.stdout[-500:] + p.stderr[-2000:])
    return json.loads(line[0][8:])


def determinism(verif_seed, props, n):
    bad_total = 0
    report = {}
    for prop in props:
        t0 = time.time()
        a = _digests(prop, n, 0, 16, verif_seed)
        b = _digests(prop, n, 0, 16, verif_seed)
        c = _digests(prop, n, 12345, 3, verif_seed)
        d = _digests(prop, max(1, n // 4), 987, 1, verif_seed)
        bad = sorted({int(i) for i in a if a[i] != b.get(i) or a[i] != c.get(i)} | {int(i) for i in d if a.get(i) != d[i]})
        special = sum(1 for v in a.values() if v in ('timeout', 'error'))
        report[prop] = {'indices': n, 'configs': 4, 'mismatches': bad, 'timeouts_or_errors': special,
                        'distinct_digests': len(set(a.values())), 'wall_s': round(time.time() - t0, 1)}
        print(f'determinism {prop}: n={n} x (16w/hs0, 16w/hs0, 3w/hs12345, 1w/hs987[{max(1, n // 4)}]) '
              f'distinct={len(set(a.values()))} mismatches={bad[:10]} special={special} {time.time() - t0:.0f}s', flush=True)
        bad_total += len(bad) + special
    return bad_total, report


def _scratch_copy():
    d = tempfile.mkdtemp(prefix='pfst_selftest_')
    shutil.copytree(os.path.join(core.REPO, 'src'), os.path.join(d, 'src'),
                    ignore=shutil.ignore_patterns('__pycache__', '*.pyc', '*.egg-info'))
    return d


def _run_against(d, prop, verif_seed):
    env = dict(os.environ, PFST_REPO=d, PFST_VERIF_EVIDENCE=os.path.join(d, 'evidence'),
               PFST_VERIF_REPLAYS=os.path.join(d, 'replays'), VERIF_SEED=str(verif_seed))
    env.pop('PFST_VERIF_CHILD', None)
    env.pop('PYTHONHASHSEED', None)
    t0 = time.time()
    p = subprocess.run([sys.executable, CHECK, prop, '--tier', 'quick'], capture_output=True, text=True, timeout=3600,
                       env=env, cwd=core.VERIF)
    nv = sum(1 for ln in p.stdout.splitlines() if ln.startswith('VIOLATION property=' + prop))
    kinds = sorted({json.loads(ln.strip()).get('kind') for ln in p.stdout.splitlines()
                    if ln.startswith('  {"kind"') and _is_json(ln.strip())})
    return p.returncode, nv, kinds, time.time() - t0, p.stdout[-1500:] + p.stderr[-1500:]


def _is_json(s):
    try:
        json.loads(s)
        return True
    except Exception:
        return False


def sensitivity(verif_seed, sel):
    items = []
    for mdir in sorted(glob.glob(os.path.join(core.VERIF, 'seeded', 'S*'))):
        meta = json.load(open(os.path.join(mdir, 'meta.json')))
        items.append((os.path.basename(mdir), ('patch', os.path.join(mdir, 'patch.diff')), meta.get('caught_by') or []))
    for mid, fn, old, new, props in MUTANTS:
        items.append((mid, ('subst', fn, old, new), props))
    missed = 0
    report = {}
    for name, how, props in items:
        if sel and not any(name.startswith(s) or s in props for s in sel):
            continue
        d = _scratch_copy()
        try:
            if how[0] == 'patch':
                p = subprocess.run(['git', 'apply', how[1]], cwd=d, capture_output=True, text=True)
                if p.returncode:  # the tree moved on (a later fix touched the same lines): needs a rebase of the seeded patch
                    print(f'sensitivity {name}: STALE - patch does not apply to the current working tree: {p.stderr.strip()[:200]}', flush=True)
                    report[name] = {'stale': True}
                    missed += 1
                    continue
            else:
                path = os.path.join(d, 'src', 'fst', how[1])
                s = open(path).read()
                if s.count(how[2]) != 1:
                    raise core.HarnessError(f'mutant {name}: anchor text not found exactly once in {how[1]}')
                open(path, 'w').write(s.replace(how[2], how[3]))
            for prop in props:
                rc, nv, kinds, wall, tail = _run_against(d, prop, verif_seed)
                ok = rc == 1 and nv > 0
                report[f'{name}/{prop}'] = {'exit': rc, 'violation_lines': nv, 'kinds': kinds, 'wall_s': round(wall, 1)}
                print(f'sensitivity {name} vs {prop}: exit={rc} violation_lines={nv} kinds={kinds} {wall:.0f}s '
                      + ('CAUGHT' if ok else 'MISSED'), flush=True)
                if not ok:
                    missed += 1
                    print(tail)
        finally:
            shutil.rmtree(d, ignore_errors=True)
    return missed, report


def main(verif_seed, what, runs):
    mode = what[0] if what else 'all'
    sel = list(what[1:])
    rc = 0
    out = {'verif_seed': verif_seed}
    if mode in ('determinism', 'all'):
        props = [p for p in sorted(SPECS) if not sel or p in sel]
        bad, rep = determinism(verif_seed, props, runs or 320)
        out['determinism'] = rep
        if bad:
            rc = 2
    if mode in ('sensitivity', 'all'):
        missed, rep = sensitivity(verif_seed, sel)
        out['sensitivity'] = rep
        if missed:
            rc = 2
    os.makedirs(os.path.join(core.VERIF, 'selftest'), exist_ok=True)
    name = f'{mode}' + ('-' + '-'.join(sel) if sel else '') + '.json'
    with open(os.path.join(core.VERIF, 'selftest', name), 'w') as f:
        json.dump(out, f, indent=1)
    print('SELFTEST', 'OK' if rc == 0 else 'FAILED')
    return rc
