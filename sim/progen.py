"""Seeded program generator: corpus picks, nesting, layout perturbations, unique-token mode.

Everything is a pure function of the `random.Random` passed in.  Only `ast` and `tokenize` are used (never pfst)."""

import ast
import io
import keyword
import tokenize

from . import corpus

SOFT_KW = frozenset(['match', 'case', 'type', '_'])


def sdump(src_or_tree):
    """Structure-only dump."""
    t = ast.parse(src_or_tree) if isinstance(src_or_tree, str) else src_or_tree
    return ast.dump(t)


def try_parse(src):
    try:
        return ast.parse(src)
    except (SyntaxError, ValueError, RecursionError, MemoryError):
        return None


def toks(src):
    return list(tokenize.generate_tokens(io.StringIO(src).readline))


def try_toks(src):
    try:
        return toks(src)
    except (tokenize.TokenError, SyntaxError, IndentationError):
        return None


class Offsets:
    """(1-based line, col) <-> absolute offset for a text."""

    def __init__(self, src):
        self.starts = starts = [0]
        for ln in src.split('\n'):
            starts.append(starts[-1] + len(ln) + 1)

    def abs(self, pos):
        return self.starts[pos[0] - 1] + pos[1]


# ----------------------------------------------------------------------------------------------------------------------
# composition

def _indent(text, n):
    pad = ' ' * n
    return ''.join(pad + ln + '\n' if ln else '\n' for ln in text.rstrip('\n').split('\n'))


_CLASS_INDEX = {}


def class_index():
    """{node class name: ([simple statements containing it], [block templates whose own header/structure contains it])},
    computed once from the corpus (deterministic: corpus order)."""
    if not _CLASS_INDEX:
        for tmpl in corpus.SIMPLE_STMTS:
            t = try_parse(tmpl)
            for c in sorted({n.__class__.__name__ for n in ast.walk(t)} if t else ()):
                _CLASS_INDEX.setdefault(c, ([], []))[0].append(tmpl)
        for tmpl in corpus.BLOCK_STMTS:
            src = tmpl
            for ph, ind in (('{B}', 4), ('{B2}', 4), ('{B3}', 4), ('{BB}', 8), ('{BB2}', 8)):
                src = src.replace(ph, ' ' * ind + 'pass\n')
            t = try_parse(src)
            for c in sorted({n.__class__.__name__ for n in ast.walk(t)} if t else ()):
                if c != 'Pass':
                    _CLASS_INDEX.setdefault(c, ([], []))[1].append(tmpl)
        for c in ('Module', 'Load', 'Store', 'Del'):
            _CLASS_INDEX.pop(c, None)
    return _CLASS_INDEX


def gen_focus_stmt(rng, cfg):
    """A statement that contains a node of class cfg['focus_cls'] (swarm 'focus' runs: uniform over node classes instead
    of weighted by how often the corpus happens to contain a class)."""
    simple, block = class_index().get(cfg['focus_cls'], ((), ()))
    if block and (not simple or rng.random() < len(block) / (len(block) + len(simple))):
        return gen_stmt(rng, 0, dict(cfg, max_depth=max(cfg['max_depth'], 1)), tmpl=rng.choice(block))
    if simple:
        return rng.choice(simple)
    return gen_stmt(rng, 0, cfg)


def gen_stmt(rng, depth, cfg, tmpl=None):
    if tmpl is not None or (depth < cfg['max_depth'] and rng.random() < cfg['p_block']):
        if tmpl is None:
            tmpl = rng.choice(corpus.BLOCK_STMTS)
        out = tmpl
        for ph, ind in (('{B}', 4), ('{B2}', 4), ('{B3}', 4), ('{BB}', 8), ('{BB2}', 8)):
            while ph in out:
                body = gen_body(rng, depth + 1, cfg, docstr=(ph == '{B}' and (tmpl.lstrip('@ab.()c\n').startswith(('def ', 'class ', 'async def ')))))
                out = out.replace(ph, _indent(body, ind), 1)
        return out.rstrip('\n')
    return rng.choice(corpus.SIMPLE_STMTS)


def gen_body(rng, depth, cfg, docstr=False):
    n = rng.choice((1, 1, 2, 2, 3))
    parts = []
    if docstr and rng.random() < 0.4:
        parts.append(rng.choice(['"""doc"""', "'doc'", '"""Doc line.\n\nMore.\n"""', "'''d'''", 'r"""raw\\doc"""',
                                 '"""one \\\n    two"""', "'cont \\\n  line'", '"""a\n    b \\\n    c\n"""']))
    for _ in range(n):
        parts.append(gen_stmt(rng, depth, cfg))
    return '\n'.join(parts)


# ----------------------------------------------------------------------------------------------------------------------
# layout perturbations: text -> text or None.  Each is validated by the caller (structure must not change).

_cmt_counter = [0]


def _new_comment(rng, state):
    state['ncmt'] += 1
    tail = rng.choice(['', '', '', ' ä', ' 変数', ' 🎉', ' x = 1', ' (', ' "', " '''", ' \\', ' C:\\tmp\\', ' #', ' ;', '; then more'])
    return f'# c{state["ncmt"]}{tail}'


def _line_ends(tk):
    """Tokens NEWLINE / NL that end a physical line where a trailing comment may be added (no comment there yet)."""
    out = []
    prev = None
    for t in tk:
        if t.type in (tokenize.NEWLINE, tokenize.NL) and t.string:
            if prev is None or prev.type != tokenize.COMMENT:
                if prev is not None and prev.end[0] == t.start[0]:  # something on the line
                    out.append(t)
        prev = t
    return out


def p_trailing_comment(rng, src, state):
    tk = try_toks(src)
    if not tk:
        return None
    cands = _line_ends(tk)
    if not cands:
        return None
    t = rng.choice(cands)
    lines = src.split('\n')
    ln = t.start[0] - 1
    lines[ln] = lines[ln][:t.start[1]] + rng.choice(['  ', ' ', '\t']) + _new_comment(rng, state) + lines[ln][t.start[1]:]
    return '\n'.join(lines)


def _logical_line_starts(tk):
    """1-based line numbers at which a logical line (statement line) starts, with its indentation column."""
    out = []
    at_start = True
    for t in tk:
        if t.type in (tokenize.INDENT, tokenize.DEDENT, tokenize.NL, tokenize.COMMENT, tokenize.ENDMARKER):
            continue
        if at_start:
            out.append((t.start[0], t.start[1]))
            at_start = False
        if t.type == tokenize.NEWLINE:
            at_start = True
    return out


def p_ownline_comment(rng, src, state):
    tk = try_toks(src)
    if not tk:
        return None
    cands = _logical_line_starts(tk)
    # also lines inside brackets: NL tokens
    nls = [t for t in tk if t.type == tokenize.NL and t.string]
    lines = src.split('\n')
    if nls and rng.random() < 0.3:
        t = rng.choice(nls)
        ln = t.start[0]  # insert after this physical line (0-based index of next line)
        lines.insert(ln, ' ' * rng.randint(0, 8) + _new_comment(rng, state))
        return '\n'.join(lines)
    if not cands:
        return None
    lno, col = rng.choice(cands)
    indent = lines[lno - 1][:col]
    n = rng.choice((1, 1, 2))
    new = [indent + _new_comment(rng, state) for _ in range(n)]
    if rng.random() < 0.25:
        new.append('')
    lines[lno - 1:lno - 1] = new
    return '\n'.join(lines)


def p_blank_line(rng, src, state):
    tk = try_toks(src)
    if not tk:
        return None
    cands = _logical_line_starts(tk)
    if not cands:
        return None
    lno, col = rng.choice(cands)
    lines = src.split('\n')
    lines[lno - 1:lno - 1] = [rng.choice(['', '', '    ', ''])] * rng.choice((1, 1, 2))
    return '\n'.join(lines)


def p_parens(rng, src, state):
    tree = try_parse(src)
    if tree is None:
        return None
    cands = []
    fstr_depth_nodes = set()
    for n in ast.walk(tree):
        if isinstance(n, (ast.JoinedStr,)):
            for m in ast.walk(n):
                fstr_depth_nodes.add(id(m))
    for n in ast.walk(tree):
        if isinstance(n, ast.expr) and id(n) not in fstr_depth_nodes and not isinstance(n, (ast.Starred, ast.Slice)):
            if isinstance(getattr(n, 'ctx', None), (ast.Store, ast.Del)) and rng.random() < 0.7:
                continue
            cands.append(n)
        elif isinstance(n, ast.pattern) and not isinstance(n, ast.MatchStar):
            cands.append(n)  # group pattern '(p)'; where it is not allowed the caller's parse check rejects the result
    if not cands:
        return None
    fc = state.get('focus_cls')
    if fc:  # focus run: prefer the direct children of nodes of the focus class
        kids = {id(c) for p in ast.walk(tree) if p.__class__.__name__ == fc for c in ast.iter_child_nodes(p)}
        fcands = [n for n in cands if id(n) in kids]
        if fcands and rng.random() < 0.6:
            cands = fcands
    n = rng.choice(cands)
    lines = src.split('\n')
    bl = [ln.encode() for ln in lines]

    def b2c(lno, boff):
        return len(bl[lno - 1][:boff].decode())

    sl, sc, el, ec = n.lineno, b2c(n.lineno, n.col_offset), n.end_lineno, b2c(n.end_lineno, n.end_col_offset)
    style = rng.random()
    op, cl = ('(', ')') if style < 0.7 else ('( ', ' )') if style < 0.85 else ('(\n' + ' ' * rng.randint(0, 12), '\n' + ' ' * rng.randint(0, 12) + ')')
    lines[el - 1] = lines[el - 1][:ec] + cl + lines[el - 1][ec:]
    lines[sl - 1] = lines[sl - 1][:sc] + op + lines[sl - 1][sc:]
    return '\n'.join(lines)


def _depth_tokens(tk):
    """Yield (token, bracket depth before token, in_fstring)."""
    depth = 0
    fdepth = 0
    for t in tk:
        if t.type == tokenize.FSTRING_START:
            fdepth += 1
        yield t, depth, fdepth
        if t.type == tokenize.FSTRING_END:
            fdepth -= 1
        if t.type == tokenize.OP:
            if t.string in '([{':
                depth += 1
            elif t.string in ')]}':
                depth -= 1


def p_break_in_brackets(rng, src, state):
    tk = try_toks(src)
    if not tk:
        return None
    cands = []
    prev = None
    for t, depth, fd in _depth_tokens(tk):
        if prev is not None and depth > 0 and not fd and prev.end[0] == t.start[0] and prev.type not in (tokenize.NL, tokenize.COMMENT) \
                and t.type not in (tokenize.NL, tokenize.NEWLINE, tokenize.COMMENT):
            cands.append((prev, t))
        prev = t
    if not cands:
        return None
    a, b = rng.choice(cands)
    lines = src.split('\n')
    ln = a.end[0] - 1
    cmt = ('  ' + _new_comment(rng, state)) if rng.random() < 0.3 else ''
    lines[ln] = lines[ln][:a.end[1]] + cmt + '\n' + ' ' * rng.randint(0, 16) + lines[ln][b.start[1]:]
    return '\n'.join(lines)


def p_break_at_edge(rng, src, state):
    """Inside brackets: a line break between the first and the second (or the last and the one before last) element of
    a sequence - operands of a BoolOp / Compare, elements, arguments, with-items ...: removing that edge element later
    moves the start (end) of the container to another line."""
    tree = try_parse(src)
    tk = try_toks(src)
    if tree is None or not tk:
        return None
    starts = set()
    for n in ast.walk(tree):
        seqs = [v for f, v in ast.iter_fields(n) if isinstance(v, list) and len(v) >= 2 and all(hasattr(x, 'lineno') for x in v)]
        if isinstance(n, ast.Compare):
            seqs.append([n.left] + n.comparators)
        for v in seqs:
            for x in (v[1], v[-1]):
                starts.add((x.lineno, x.col_offset))
    lines = src.split('\n')
    bstart = {}
    for lno, boff in starts:
        try:
            bstart[(lno, len(lines[lno - 1].encode()[:boff].decode()))] = True
        except Exception:
            pass
    cands = []
    dt = list(_depth_tokens(tk))
    for i, (t, depth, fd) in enumerate(dt):
        if t.start in bstart and depth > 0 and not fd:
            j = i
            while j > 0 and dt[j - 1][0].string == '(' and dt[j - 1][0].end[0] == dt[j][0].start[0]:
                j -= 1
            if j > 0 and dt[j - 1][0].end[0] == dt[j][0].start[0] and dt[j][1] > 0 and dt[j - 1][0].type not in (tokenize.NL, tokenize.COMMENT):
                cands.append((dt[j - 1][0], dt[j][0]))
    if not cands:
        return None
    a, b = rng.choice(cands)
    ln = a.end[0] - 1
    cmt = ('  ' + _new_comment(rng, state)) if rng.random() < 0.2 else ''
    lines[ln] = lines[ln][:a.end[1]] + cmt + '\n' + ' ' * rng.randint(0, 16) + lines[ln][b.start[1]:]
    return '\n'.join(lines)


def p_backslash(rng, src, state):
    tk = try_toks(src)
    if not tk:
        return None
    cands = []
    prev = None
    for t, depth, fd in _depth_tokens(tk):
        if prev is not None and depth == 0 and not fd and prev.end[0] == t.start[0] and prev.end[1] <= t.start[1] \
                and prev.type not in (tokenize.NL, tokenize.NEWLINE, tokenize.COMMENT, tokenize.INDENT, tokenize.DEDENT) \
                and t.type not in (tokenize.NL, tokenize.NEWLINE, tokenize.COMMENT, tokenize.ENDMARKER, tokenize.DEDENT, tokenize.INDENT):
            cands.append((prev, t))
        prev = t
    if not cands:
        return None
    a, b = rng.choice(cands)
    lines = src.split('\n')
    ln = a.end[0] - 1
    lines[ln] = lines[ln][:a.end[1]] + rng.choice([' ', '', '  ']) + '\\\n' + ' ' * rng.randint(0, 12) + lines[ln][b.start[1]:]
    return '\n'.join(lines)


_SIMPLE = (ast.Assign, ast.AugAssign, ast.AnnAssign, ast.Expr, ast.Pass, ast.Del if hasattr(ast, 'Del') else ast.Delete,
           ast.Delete, ast.Return, ast.Raise, ast.Assert, ast.Import, ast.ImportFrom, ast.Global, ast.Nonlocal,
           ast.Break, ast.Continue, ast.TypeAlias)


def _bodies(tree):
    for n in ast.walk(tree):
        for fld in ('body', 'orelse', 'finalbody'):
            b = getattr(n, fld, None)
            if isinstance(b, list) and b and isinstance(b[0], ast.stmt):
                yield n, fld, b


def p_semicolon(rng, src, state):
    tree = try_parse(src)
    if tree is None:
        return None
    cands = []
    if rng.random() < 0.3:
        # a useless trailing ';' right after a simple statement (before its line comment, if any)
        simple = [x for n, fld, b in _bodies(tree) for x in b if isinstance(x, _SIMPLE)]
        if not simple:
            return None
        x = rng.choice(simple)
        lines = src.split('\n')
        ln = lines[x.end_lineno - 1]
        ec = len(ln.encode()[:x.end_col_offset].decode())
        if ln[ec:].lstrip().startswith(';'):
            return None
        lines[x.end_lineno - 1] = ln[:ec] + rng.choice([';', ' ;', ';  ']) + ln[ec:]
        return '\n'.join(lines)
    for n, fld, b in _bodies(tree):
        for i in range(len(b) - 1):
            if isinstance(b[i], _SIMPLE) and isinstance(b[i + 1], _SIMPLE) and b[i].end_lineno + 1 == b[i + 1].lineno:
                cands.append((b[i], b[i + 1]))
    if not cands:
        return None
    a, b = rng.choice(cands)
    lines = src.split('\n')
    la = lines[a.end_lineno - 1]
    if '#' in la or la.rstrip().endswith('\\'):
        return None
    lb = lines[b.lineno - 1]
    lines[a.end_lineno - 1:b.lineno] = [la.rstrip() + rng.choice(['; ', ';', ' ; ', ';  ']) + lb.lstrip()]
    return '\n'.join(lines)


def p_oneline_block(rng, src, state):
    tree = try_parse(src)
    if tree is None:
        return None
    lines = src.split('\n')
    cands = []
    for n, fld, b in _bodies(tree):
        if isinstance(n, ast.Module):
            continue
        if all(isinstance(s, _SIMPLE) for s in b) and b[0].lineno == b[-1].lineno:
            prev = lines[b[0].lineno - 2] if b[0].lineno >= 2 else ''
            if prev.rstrip().endswith(':') and '#' not in prev and lines[b[0].lineno - 1].strip() == lines[b[0].lineno - 1].strip():
                cands.append(b[0].lineno)
    if not cands:
        return None
    lno = rng.choice(cands)
    lines[lno - 2:lno] = [lines[lno - 2].rstrip() + rng.choice([' ', '', '  ']) + lines[lno - 1].lstrip()]
    return '\n'.join(lines)


def p_reindent(rng, src, state):
    tk = try_toks(src)
    if not tk:
        return None
    unit = rng.choice(['  ', '\t', '   ', '        ', ' '])
    starts = {}
    level = 0
    at_start = True
    # compute indent level for each logical line start via INDENT/DEDENT tokens
    for t in tk:
        if t.type == tokenize.INDENT:
            level += 1
            continue
        if t.type == tokenize.DEDENT:
            level -= 1
            continue
        if t.type in (tokenize.NL, tokenize.COMMENT, tokenize.ENDMARKER):
            continue
        if at_start:
            starts[t.start[0]] = (t.start[1], level)
            at_start = False
        if t.type == tokenize.NEWLINE:
            at_start = True
    lines = src.split('\n')
    for lno, (col, level) in starts.items():
        lines[lno - 1] = unit * level + lines[lno - 1][col:]
    # own-line comments keep their old indentation (legal anywhere)
    return '\n'.join(lines)


def p_trailing_ws(rng, src, state):
    tk = try_toks(src)
    if not tk:
        return None
    cands = [t for t in tk if t.type in (tokenize.NEWLINE, tokenize.NL) and t.string]
    if not cands:
        return None
    t = rng.choice(cands)
    lines = src.split('\n')
    ln = t.start[0] - 1
    if lines[ln].rstrip().endswith('\\'):
        return None
    lines[ln] = lines[ln] + rng.choice([' ', '  ', '\t'])
    return '\n'.join(lines)


def p_trailing_comma(rng, src, state):
    tk = try_toks(src)
    if not tk:
        return None
    cands = []
    prev = None
    for t, depth, fd in _depth_tokens(tk):
        if not fd and t.type == tokenize.OP and t.string in ')]}' and prev is not None and prev.type != tokenize.OP | 0 \
                and not (prev.type == tokenize.OP and prev.string in ',([{'):
            cands.append((prev, t))
        if t.type not in (tokenize.NL, tokenize.COMMENT):
            prev = t
    if not cands:
        return None
    a, b = rng.choice(cands)
    lines = src.split('\n')
    ln = a.end[0] - 1
    lines[ln] = lines[ln][:a.end[1]] + ',' + lines[ln][a.end[1]:]
    return '\n'.join(lines)


def p_spaces(rng, src, state):
    """Widen or remove whitespace between two tokens on one line."""
    tk = try_toks(src)
    if not tk:
        return None
    cands = []
    prev = None
    for t, depth, fd in _depth_tokens(tk):
        if prev is not None and not fd and prev.end[0] == t.start[0] and prev.type not in (tokenize.INDENT, tokenize.DEDENT, tokenize.NL, tokenize.NEWLINE) \
                and t.type not in (tokenize.NEWLINE, tokenize.NL, tokenize.ENDMARKER, tokenize.DEDENT, tokenize.COMMENT, tokenize.FSTRING_MIDDLE, tokenize.FSTRING_END):
            cands.append((prev, t))
        prev = t
    if not cands:
        return None
    a, b = rng.choice(cands)
    lines = src.split('\n')
    ln = a.end[0] - 1
    lines[ln] = lines[ln][:a.end[1]] + rng.choice(['', ' ', '  ', '   ', '\t']) + lines[ln][b.start[1]:]
    return '\n'.join(lines)


def p_colon_space(rng, src, state):
    """Whitespace (or a line continuation) in front of the ':' that ends a block header: 'try  :', 'else :', 'if x\t:'."""
    tk = try_toks(src)
    if not tk:
        return None
    cands = []
    prev = None
    for t, depth, fd in _depth_tokens(tk):
        if prev is not None and not fd and depth == 0 and t.type == tokenize.OP and t.string == ':' and prev.end == t.start \
                and prev.type in (tokenize.NAME, tokenize.OP, tokenize.NUMBER, tokenize.STRING):
            cands.append(t)
        prev = t
    if not cands:
        return None
    t = rng.choice(cands)
    lines = src.split('\n')
    ln = t.start[0] - 1
    lines[ln] = lines[ln][:t.start[1]] + rng.choice([' ', '  ', '\t', '   ', ' \\\n' + ' ' * rng.randint(0, 6)]) + lines[ln][t.start[1]:]
    return '\n'.join(lines)


PERTURBATIONS = {
    'colon_space': p_colon_space,
    'trailing_comment': p_trailing_comment,
    'ownline_comment': p_ownline_comment,
    'blank_line': p_blank_line,
    'parens': p_parens,
    'break_in_brackets': p_break_in_brackets,
    'break_at_edge': p_break_at_edge,
    'backslash': p_backslash,
    'semicolon': p_semicolon,
    'oneline_block': p_oneline_block,
    'reindent': p_reindent,
    'trailing_ws': p_trailing_ws,
    'trailing_comma': p_trailing_comma,
    'spaces': p_spaces,
}


# ----------------------------------------------------------------------------------------------------------------------
# token renaming: non-ASCII identifiers and unique-token mode (these change structure by design: names only)

NONASCII_NAMES = ['ä', 'λ', '変数', 'é', 'ñandú', 'ж', 'π', 'ﬁ', 'ｘ', 'µ', '𝔘']  # the last four are not NFKC-normal: the parser stores 'fi', 'x', 'μ', 'U'


def rename_tokens(rng, src, unique, p_nonascii):
    """Rename NAME tokens (consistently per original name when not unique; per occurrence when unique); in unique mode
    also NUMBER, STRING and COMMENT tokens.  Returns new source or None."""
    tk = try_toks(src)
    if not tk:
        return None
    off = Offsets(src)
    reps = []
    counter = [0]
    mapping = {}

    def fresh(prefix):
        counter[0] += 1
        return f'{prefix}{counter[0]}'

    prev_sig = None
    for t in tk:
        new = None
        if t.type == tokenize.NAME and not keyword.iskeyword(t.string) and t.string not in SOFT_KW:
            if unique:
                new = (rng.choice(NONASCII_NAMES) if rng.random() < p_nonascii else 'v') + fresh('')
            elif p_nonascii:
                if t.string not in mapping:
                    mapping[t.string] = (rng.choice(NONASCII_NAMES) + t.string) if rng.random() < p_nonascii else t.string
                new = mapping[t.string]
        elif unique and t.type == tokenize.NUMBER:
            s = t.string.lower()
            n = fresh('')
            new = (n + 'j') if s.endswith('j') else (n + '.5') if ('.' in s or ('e' in s and not s.startswith('0x'))) else ('9' + n)
        elif unique and t.type == tokenize.STRING:
            s = t.string
            i = 0
            while s[i] not in '\'"':
                i += 1
            prefix = s[:i].lower()
            body = fresh('s') + (rng.choice(['', '', 'ä', '🎉']))
            q = rng.choice(["'", '"'])
            isdoc = prev_sig is None or prev_sig.type in (tokenize.NEWLINE, tokenize.INDENT, tokenize.DEDENT)
            if isdoc and s[i:i + 3] in ('"""', "'''"):
                q = s[i:i + 3]
            new = ('b' if 'b' in prefix else '') + q + (body.encode('ascii', 'ignore').decode() if 'b' in prefix else body) + q
        elif unique and t.type == tokenize.COMMENT:
            new = '# ' + fresh('c') + rng.choice(['', '', '', ' ä', ' 🎉', ' \\', ' ;', '; then more', ' #', ' ('])
        if new is not None and new != t.string:
            reps.append((off.abs(t.start), off.abs(t.end), new))
        if t.type not in (tokenize.NL, tokenize.COMMENT):
            prev_sig = t
    out = src
    for a, b, new in sorted(reps, reverse=True):
        out = out[:a] + new + out[b:]
    return out


# ----------------------------------------------------------------------------------------------------------------------

DEFAULT_CFG = {
    'n_top': (2, 6), 'max_depth': 2, 'p_block': 0.35, 'n_perturb': (0, 10), 'perturb_kinds': None,
    'unique': False, 'p_nonascii': 0.1, 'max_lines': 60, 'n_enrich': 0,
}


def swarm_cfg(rng, **over):
    kinds = sorted(PERTURBATIONS)
    # swarm: each run enables a random subset of perturbation kinds
    enabled = [k for k in kinds if rng.random() < 0.6] or [rng.choice(kinds)]
    cfg = dict(DEFAULT_CFG)
    cfg.update(
        n_top=rng.choice([(1, 2), (2, 4), (2, 6), (3, 8)]),
        max_depth=rng.choice([1, 2, 2, 3]),
        p_block=rng.choice([0.15, 0.35, 0.5]),
        n_perturb=rng.choice([(0, 0), (0, 4), (2, 8), (4, 14)]),
        perturb_kinds=enabled,
        p_nonascii=rng.choice([0.0, 0.0, 0.1, 0.4]),
        n_enrich=rng.choice([0, 0, 0, 1, 2, 4]),
    )
    if rng.random() < 0.3:
        # swarm 'focus' run: a small program built around one node class chosen uniformly from all classes the corpus
        # has; edit generators that honour cfg['focus_cls'] aim most edits at nodes of that class (all their fields)
        cfg['focus_cls'] = fc = rng.choice(sorted(class_index()))
        ff = [f for f in getattr(ast, fc)._fields if f not in ('ctx', 'type_ignores', 'type_comment')]
        ff += {'Dict': ['_all'], 'MatchMapping': ['_all'], 'Compare': ['_all'], 'Call': ['_args'],
               'ClassDef': ['_bases', '_body'], 'FunctionDef': ['_body'], 'AsyncFunctionDef': ['_body'],
               'arguments': ['_all'], 'MatchClass': ['_attrs']}.get(fc, [])
        cfg['focus_field'] = rng.choice(ff) if ff and rng.random() < 0.8 else None
        cfg['n_top'] = rng.choice([(1, 1), (1, 2), (2, 3)])
        cfg['max_depth'] = rng.choice([1, 1, 2])
    cfg.update(over)
    return cfg


def gen_program(rng, cfg, stats=None):
    """Return program text (always parses)."""
    for _attempt in range(20):
        n = rng.randint(*cfg['n_top'])
        parts = [gen_stmt(rng, 0, cfg) for _ in range(n)]
        if cfg.get('focus_cls'):
            parts[rng.randrange(n)] = gen_focus_stmt(rng, cfg)
        src = '\n'.join(parts) + '\n'
        if src.count('\n') > cfg['max_lines']:
            continue
        if cfg.get('n_enrich'):
            src = enrich(rng, src, cfg['n_enrich'], cfg.get('focus_cls'))
        base = try_parse(src)
        if base is None:
            continue
        state = {'ncmt': 0, 'focus_cls': cfg.get('focus_cls')}
        want = ast.dump(base)
        kinds = cfg['perturb_kinds'] or sorted(PERTURBATIONS)
        todo = [rng.choice(kinds) for _ in range(rng.randint(*cfg['n_perturb']))]
        if cfg.get('focus_cls'):  # focus run: some extra layout changes right at the focus nodes
            todo += [k for k in ('parens', 'parens', 'break_in_brackets', 'spaces') if k in PERTURBATIONS and rng.random() < 0.4]
            rng.shuffle(todo)
        for k in todo:
            new = PERTURBATIONS[k](rng, src, state)
            if new is None or new == src:
                continue
            t = try_parse(new)
            if t is not None and ast.dump(t) == want and try_toks(new):
                src = new
                if stats is not None:
                    stats['perturb_' + k] += 1
        if cfg['unique'] or cfg['p_nonascii']:
            new = rename_tokens(rng, src, cfg['unique'], cfg['p_nonascii'])
            if new is None or try_parse(new) is None:
                if cfg['unique']:
                    continue
            else:
                src = new
        r = rng.random()
        if r < 0.2:
            src = src.rstrip('\n')
        elif r < 0.3:
            src = src + '\n'
        elif r < 0.35:
            src = '\n' + src
        if try_parse(src) is None:
            continue
        return src
    return 'a = b\n'


ENRICH_EXPRS = [
    'x and y and z', 'x or y or z', 'x < y < z', 'x is not y != z', 'x + y * z', 'x.y', 'x[y]', 'x(y)', 'x(y, z=w)',
    'x(y, k=z, *w)', 'x(*y, k=z, **w)', 'x(k=y, *z, *w)', 'x if y else z', '[x, y, z]', '(x, y, z)', '{x: y, **z}',
    '{x, y}', 'not x', '-x', 'x @ y', '(x)', '(x and y)', 'x[y:z]', 'x[y, z]', 'lambda y, z=w: x', '[x for y in z if w]',
    "f'{x}{y!r}'", "'s' 't'", 'x(y)(z)', 'x.y.z', 'await x', 'x := y', '(x := y)', 'x not in y', 'x ** -y',
    'x(y for y in z)', '{x: y for x, y in z}',
]


def enrich(rng, src, n, focus_cls=None):
    """Structure enrichment (before the layout perturbations): replace up to `n` plain loaded names of the program by
    compound expressions, so that every expression slot of every corpus statement (a with-item's context expression, a
    call argument, a subscript, a decorator, a default ...) is sometimes a BoolOp / Compare / Call with keywords and
    stars / comprehension.  The result only has to parse; where the replacement needs parentheses it gets them."""
    for _ in range(n):
        tree = try_parse(src)
        if tree is None:
            return src
        skip = set()
        for m in ast.walk(tree):
            if isinstance(m, (ast.JoinedStr, ast.pattern)):
                skip.update(id(x) for x in ast.walk(m))
        cands = [m for m in ast.walk(tree) if isinstance(m, ast.Name) and isinstance(m.ctx, ast.Load) and id(m) not in skip]
        if focus_cls and rng.random() < 0.7:
            kids = {id(c) for q in ast.walk(tree) if q.__class__.__name__ == focus_cls for c in ast.walk(q) if c is not q}
            cands = [m for m in cands if id(m) in kids] or cands
        if not cands:
            return src
        m = rng.choice(cands)
        new = rng.choice(ENRICH_EXPRS)
        lines = src.split('\n')
        ln = lines[m.lineno - 1]
        bl = ln.encode()
        a, b = len(bl[:m.col_offset].decode()), len(bl[:m.end_col_offset].decode())
        for text in ((new, '(' + new + ')') if rng.random() < 0.7 else ('(' + new + ')',)):
            cand = lines[:m.lineno - 1] + [ln[:a] + text + ln[b:]] + lines[m.lineno:]
            cand = '\n'.join(cand)
            if try_parse(cand) is not None and try_toks(cand):
                src = cand
                break
    return src


MB_PREFIXES = ['é; ', 'λ;', '"ü" ;  ', 'д = 1; ', "'🎉'; ", 'ä;\t']


def mb_prefix(rng, src, p=0.5):
    """Put a small statement made of multi-byte characters and a ';' in front of some simple statements (so that what
    follows on the line has byte columns != character columns and does not start at the line's indentation)."""
    tree = try_parse(src)
    if tree is None:
        return src
    lines = src.split('\n')
    spots = []
    for n in ast.walk(tree):
        if isinstance(n, ast.stmt) and not hasattr(n, 'body') and not isinstance(n, ast.Match):
            ln = lines[n.lineno - 1]
            col = len(ln.encode()[:n.col_offset].decode())
            if ln[:col].strip() == '' and rng.random() < p:
                spots.append((n.lineno - 1, col))
    for li, col in sorted(set(spots), reverse=True):
        lines[li] = lines[li][:col] + rng.choice(MB_PREFIXES) + lines[li][col:]
    new = '\n'.join(lines)
    return new if try_parse(new) is not None and try_toks(new) else src


def relayout(rng, src, n=8, kinds=None):
    """Layout twin: same structure, different layout."""
    want = sdump(src)
    state = {'ncmt': 1000}
    kinds = kinds or sorted(PERTURBATIONS)
    for _ in range(n):
        k = rng.choice(kinds)
        new = PERTURBATIONS[k](rng, src, state)
        if new is None or new == src:
            continue
        t = try_parse(new)
        if t is not None and ast.dump(t) == want:
            src = new
    return src
