"""Property plugins for editsim."""

import ast

from . import ops as O
from .editsim import Plugin, StopRun, Violation, check_consistent, modifying_registry, plugin
from .model import fdump, sdump


# ======================================================================================================================
# C01 - after any successful edit the source parses to exactly the live tree

@plugin
class C01(Plugin):
    prop = 'C01'
    n_steps = (1, 12)

    def configure(self, rng):
        cfg = super().configure(rng)
        # "which cached answers were populated in between" is part of a history: in a third of the runs read-only
        # queries and copies (which never count as steps of the property) are interleaved with the edits
        cfg['p_read'] = rng.choice([0.0, 0.0, 0.25])
        return cfg

    def gen_op(self, rng):
        run = self.run
        if run.cfg.get('p_read') and rng.random() < run.cfg['p_read']:
            nodes = O.all_nodes(run.root.a)
            if nodes:
                from .model import path_str
                if rng.random() < 0.6:
                    k = rng.randint(1, max(1, len(nodes) // 3))
                    return {'k': 'query', 'paths': sorted({path_str(rng.choice(nodes)[0]) for _ in range(k)}), 'level': 2}
                return {'k': 'read_copy', 'path': [list(p) for p in rng.choice(nodes)[0]]}
        return O.gen_edit(rng, run.root.a, run.cfg)

    def apply(self, op):
        run = self.run
        if op['k'] == 'query':
            from . import queries
            queries.query_tree(run.root, op.get('level', 2), set(op['paths']))
            run.stats['query_ops'] += 1
            return None
        if op['k'] == 'read_copy':
            f = O.resolve_f(run.root, op['path'])
            try:
                f.copy()
            except Exception:
                pass
            run.stats['read_copy_ops'] += 1
            return None
        return super().apply(op)

    def post_op(self, op, ctx, out):
        run = self.run
        if out[0] == 'ok':
            run.core_after_ok(True)
        elif out[0] == 'exc':
            # a failed edit must leave a consistent tree (C12); if not, that is C12's finding, not C01's
            if check_consistent(run.root) is not None or modifying_registry():
                run.stats['collateral_c12'] += 1
                raise StopRun()


# ======================================================================================================================
# C12 - a failed edit leaves the tree untouched and still editable

_SPLICES = [0]


def _install_splice_counter():
    """Harness-side reach probe (no repo change): count source splices (`FST._put_src`) performed during a request."""
    import fst
    if getattr(fst.FST._put_src, '_verif_counted', False):
        return
    orig = fst.FST._put_src

    def _put_src(self, *a, **kw):
        _SPLICES[0] += 1
        return orig(self, *a, **kw)
    _put_src._verif_counted = True
    fst.FST._put_src = _put_src


@plugin
class C12(Plugin):
    prop = 'C12'
    n_steps = (2, 10)

    def configure(self, rng):
        from .faults import FAULT_KINDS
        cfg = super().configure(rng)
        cfg['p_fault'] = rng.choice([0.3, 0.5, 0.75, 1.0])
        cfg['fault_kinds'] = [k for k in FAULT_KINDS if rng.random() < 0.6] or [rng.choice(FAULT_KINDS)]
        cfg['p_same_cat'] = rng.choice([0.3, 0.6, 0.9])
        cfg['warm'] = rng.choice([0.0, 0.5, 1.0])
        cfg['cache_check'] = rng.choice([False, False, True])
        return cfg

    def start(self):
        self.nprobe = 0
        self.probe_pending = False
        _install_splice_counter()

    def gen_op(self, rng):
        from .faults import gen_fault
        run = self.run
        if self.probe_pending:
            self.probe_pending = False
            self.nprobe += 1
            tree = run.root.a
            n = len(tree.body)
            return {'k': 'insert', 'path': [], 'field': 'body', 'idx': rng.randrange(n + 1), 'one': True, 'opts': {},
                    'code': {'form': 'src', 'cat': 'stmt', 'text': f'probe_{self.nprobe} = {self.nprobe}'}, 'probe': True}
        if rng.random() < run.cfg['p_fault']:
            return gen_fault(rng, run.root.a, run.cfg)
        return O.gen_edit(rng, run.root.a, run.cfg)

    def pre_op(self, op):
        run = self.run
        root = run.root
        if run.cfg.get('warm') and (run.step * 7919 % 100) / 100 < run.cfg['warm']:
            # warm caches on the target's neighbourhood (deterministic, no PRNG draw)
            try:
                f = O.resolve_f(root, op.get('path', []))
                for g in (f, f.parent, f.next(), f.prev()):
                    if g is not None and g is not False:
                        g.loc, g.bloc, g.pars()
            except Exception:
                pass
        self.q_before = None
        if run.cfg.get('cache_check') and op.get('fault'):
            from . import queries
            self.q_before = queries.query_tree(root, 2)  # every answer before the (expected to fail) request
        _SPLICES[0] = 0
        return run.snapshot()

    def post_op(self, op, ctx, out):
        run = self.run
        if out[0] == 'exc' and _SPLICES[0]:  # reach probe: the request failed AFTER the source had already been spliced
            run.stats['late_failures_after_a_splice'] += 1
            run.stats['late_failure_splices'] += _SPLICES[0]
        if out[0] == 'ok':
            run.core_after_ok(False)
            if op.get('fault'):
                run.stats['fault_' + op['fault'] + '_accepted'] += 1
            return
        if out[0] == 'skip':
            return
        e = out[1]
        if op.get('fault'):
            run.stats['fault_' + op['fault'] + '_raised'] += 1
        else:
            run.stats['refused_plain_edit'] += 1
        tb = e.__traceback__
        site = None
        while tb is not None:
            fn = tb.tb_frame.f_code.co_filename
            if '/fst/' in fn:
                site = f'{fn.rsplit("/", 1)[1]}:{tb.tb_lineno}'
            tb = tb.tb_next
        if site:
            run.tuples.add('raise_site|' + site)
        if op.get('probe'):
            raise Violation('next_valid_edit_failed', f'valid edit after a failed one raised {O.exc_repr(e)}')
        if id(run.root) != run.root_id:
            raise Violation('root_identity', 'root changed')
        src, dump = ctx
        if run.root.src != src:
            raise Violation('source_changed_by_failed_edit', f'{O.exc_repr(e)} | before={src[:300]!r} after={run.root.src[:300]!r}')
        d2 = fdump(run.root.a)
        if d2 != dump:
            from .editsim import _first_diff
            raise Violation('tree_changed_by_failed_edit', f'{O.exc_repr(e)} | {_first_diff(dump, d2)}')
        if modifying_registry():
            raise Violation('lock_survives_failed_edit', f'{O.exc_repr(e)} | fst_core._MODIFYING has {len(modifying_registry())} entries')
        if self.q_before is not None:  # no half-updated cached answer survives the failed edit: every query answers as before
            from . import queries
            live = queries.query_tree(run.root, 2)
            run.stats['cache_checks_after_failure'] += 1
            if live != self.q_before:
                raise Violation('answer_changed_by_failed_edit', f'{O.exc_repr(e)} | ' + repr(queries.diff(live, self.q_before))[:1200])
        self.probe_pending = True

    def finish(self):
        # the last failure may not have been followed by a probe edit: do it now (deterministic)
        if self.probe_pending:
            run = self.run
            try:
                run.root.append('probe_final = 0', 'body')
            except Exception as e:
                raise Violation('next_valid_edit_failed', f'valid edit after a failed one raised {O.exc_repr(e)}')
            bad = check_consistent(run.root)
            if bad:
                # the failed edit left the tree exactly as it was (checked above) and the probe returned normally: an
                # inconsistent tree after the probe is the probe edit's own C01 problem, not a lock or half-applied change
                run.stats['collateral_c01_' + bad[0]] += 1


# ======================================================================================================================
# C02 - an edited tree is observationally identical to a fresh parse of its own source

@plugin
class C02(Plugin):
    prop = 'C02'
    n_steps = (2, 10)

    def configure(self, rng):
        cfg = super().configure(rng)
        cfg['p_query'] = rng.choice([0.0, 0.3, 0.5])
        cfg['check_mode'] = rng.choice(['every', 'every', 'end', 'end_and_mid'])
        cfg['p_hold'] = rng.choice([0.0, 0.15])
        cfg['p_focus'] = rng.choice([0.0, 0.15, 0.3])     # sparse schedule: query SOME ancestors of a node, then edit that node
        cfg['p_par'] = rng.choice([0.0, 0.1, 0.25])      # par() / unpar() as edits
        cfg['p_offset'] = rng.choice([0.0, 0.0, 0.15])    # pure-trivia put_src(action='offset') as edits
        cfg['p_rawnone'] = rng.choice([0.0, 0.0, 0.1, 0.2])  # put_src(action=None): trailing comment / whitespace at a line end
        cfg['max_lines'] = 40
        return cfg

    def start(self):
        self.views = {}
        self.focus = None

    def gen_focus(self, rng):
        """Two consecutive ops: (1) query a random non-empty SUBSET of the ancestors of a deep node (so that some caches
        on the way up are warm and some are cold), (2) edit exactly that node.  Returns op (1) and remembers (2)."""
        from . import corpus
        from .model import path_str
        run = self.run
        nodes = [t for t in O.all_nodes(run.root.a) if len(t[0]) >= 2]
        if not nodes:
            return None
        stmts = [t for t in nodes if isinstance(t[1], ast.stmt)]
        path, node, parent, field, idx = rng.choice(stmts if stmts and rng.random() < 0.7 else nodes)
        anc = [path[:k] for k in range(0, len(path))]  # root ... parent
        pick = [a for a in anc if rng.random() < 0.5] or [rng.choice(anc)]
        r = rng.random()
        if isinstance(node, ast.stmt) and r < 0.5:
            nxt = {'k': 'put_line_comment', 'path': [list(p) for p in path], 'text': rng.choice(corpus.COMMENT_TEXTS + [None, 'a considerably longer line comment than before'])}
        elif r < 0.8:
            cat = O.node_cat(node, parent, field)
            nxt = {'k': 'replace', 'path': [list(p) for p in path], 'opts': {}, 'code': O.gen_code(rng, cat, 1, ('src',))}
        else:
            nxt = {'k': 'remove', 'path': [list(p) for p in path], 'opts': {}}
        self.focus = nxt
        return {'k': 'query', 'paths': sorted({path_str(a) for a in pick}), 'level': rng.choice([1, 2])}

    def gen_par_op(self, rng):
        """par() / unpar() of an expression or pattern node; unpar is biased to nodes that are parenthesized in the source."""
        run = self.run
        tree = run.root.a
        lines = run.root.src.split('\n')
        cands, parenthesized = [], []
        for path, node, parent, field, idx in O.all_nodes(tree):
            if O.node_cat(node, parent, field) not in ('expr', 'pattern') or not hasattr(node, 'end_col_offset'):
                continue
            cands.append(path)
            try:
                before = lines[node.lineno - 1].encode()[:node.col_offset].decode().rstrip()
                after = lines[node.end_lineno - 1].encode()[node.end_col_offset:].decode().lstrip()
            except Exception:
                continue
            if before.endswith('(') and after.startswith(')'):
                parenthesized.append(path)
        if not cands:
            return None
        if parenthesized and rng.random() < 0.6:
            return {'k': 'unpar', 'path': [list(p) for p in rng.choice(parenthesized)], 'node': rng.choice([False, False, True])}
        if rng.random() < 0.5:
            return {'k': 'unpar', 'path': [list(p) for p in rng.choice(cands)], 'node': rng.choice([False, False, True])}
        return {'k': 'par', 'path': [list(p) for p in rng.choice(cands)], 'force': rng.choice([False, True])}

    def gen_rawnone_op(self, rng):
        """put_src(..., action=None) - the documented uses: add / change / remove a trailing comment or trailing blanks at
        the end of a logical line, called on the innermost statement that ends on that line (the node that 'owns' it)."""
        import io
        import tokenize
        run = self.run
        src = run.root.src
        try:
            toks = list(tokenize.generate_tokens(io.StringIO(src).readline))
        except (tokenize.TokenError, SyntaxError, IndentationError):
            return None
        ends = {}
        for path, node, parent, field, idx in O.all_nodes(run.root.a):
            if isinstance(node, ast.stmt):
                cur = ends.get(node.end_lineno)
                if cur is None or len(path) > len(cur):
                    ends[node.end_lineno] = path
        lines = src.split('\n')
        cands = []
        for i, t in enumerate(toks):
            if t.type == tokenize.NEWLINE and t.start[0] in ends:
                prev = toks[i - 1] if i else None
                cmt = prev if prev is not None and prev.type == tokenize.COMMENT and prev.start[0] == t.start[0] else None
                code = toks[i - 2] if cmt is not None and i >= 2 else prev
                if code is None or code.end[0] != t.start[0] or code.type in (tokenize.NL, tokenize.NEWLINE, tokenize.COMMENT, tokenize.INDENT, tokenize.DEDENT):
                    continue
                ln = t.start[0] - 1
                cands.append((ends[t.start[0]], ln, code.end[1], len(lines[ln]), cmt is not None))
        if not cands:
            return None
        path, ln, col, end_col, has = rng.choice(cands)
        r = rng.random()
        if has and r < 0.4:
            text = ''
        elif r < 0.5:
            text = rng.choice(['', ' ', '   '])
        else:
            text = rng.choice(['  # rn', ' # a longer raw comment', '#r', '  # ä🎉'])
        return {'k': 'rawnone', 'path': [list(p) for p in path], 'rect': [ln, col, ln, end_col], 'text': text}

    def gen_op(self, rng):
        run = self.run
        tree = run.root.a
        if self.focus is not None:
            op, self.focus = self.focus, None
            return op
        if rng.random() < run.cfg.get('p_focus', 0):
            op = self.gen_focus(rng)
            if op is not None:
                return op
        r = rng.random()
        if r < run.cfg['p_query']:
            nodes = O.all_nodes(tree)
            mode = rng.choice(['all', 'some', 'some', 'one'])
            if mode == 'all' or not nodes:
                return {'k': 'query', 'paths': None, 'level': rng.choice([1, 2])}
            k = 1 if mode == 'one' else rng.randint(2, max(2, len(nodes) // 3))
            from .model import path_str
            return {'k': 'query', 'paths': sorted({path_str(rng.choice(nodes)[0]) for _ in range(k)}), 'level': rng.choice([1, 2])}
        if r < run.cfg['p_query'] + run.cfg['p_hold']:
            c = []
            for path, node, _, _, _ in [((), tree, None, None, None)] + O.all_nodes(tree):
                for f in O.list_fields(node):
                    if f != 'type_ignores':
                        c.append((path, f, len(getattr(node, f))))
            if c:
                path, f, n = rng.choice(c)
                return {'k': 'hold_view', 'path': [list(p) for p in path], 'field': f, 'name': f'v{run.step}'}
        r = rng.random()
        if r < run.cfg.get('p_par', 0):
            return self.gen_par_op(rng)
        if r < run.cfg.get('p_par', 0) + run.cfg.get('p_offset', 0):
            from .props_c10 import gen_offset_op
            return gen_offset_op(rng, run.root.src)
        if r < run.cfg.get('p_par', 0) + run.cfg.get('p_offset', 0) + run.cfg.get('p_rawnone', 0):
            op = self.gen_rawnone_op(rng)
            if op is not None:
                return op
        return O.gen_edit(rng, tree, run.cfg)

    def apply(self, op):
        from . import queries
        run = self.run
        if op['k'] in ('par', 'unpar'):
            f = O.resolve_f(run.root, op['path'])
            run.stats['op_' + op['k']] += 1
            if op['k'] == 'par':
                return f.par(op.get('force', False))
            return f.unpar(op.get('node', False))
        if op['k'] == 'offset':
            from .props_c10 import offset_precondition
            if offset_precondition(run.root.src, op) is not None:
                raise O.Skip('offset precondition')
            f = O.resolve_f(run.root, op['path'])
            run.stats['op_offset_put_src'] += 1
            return f.put_src(op['text'], *op['rect'], 'offset')
        if op['k'] == 'rawnone':
            f = O.resolve_f(run.root, op['path'])
            ln, col, end_ln, end_col = op['rect']
            lines = run.root.src.split('\n')
            # precondition (replay / minimised histories): still the tail of that line after the statement's last token
            if ln >= len(lines) or end_col != len(lines[ln]) or f.end_ln != ln or f.end_col > col or (lines[ln][col:].strip() and not lines[ln][col:].lstrip().startswith('#')):
                raise O.Skip('rawnone precondition')
            run.stats['op_rawnone_put_src'] += 1
            return f.put_src(op['text'], ln, col, end_ln, end_col, None)
        if op['k'] == 'query':
            only = set(op['paths']) if op['paths'] is not None else None
            queries.query_tree(run.root, op.get('level', 2), only)
            run.stats['query_ops'] += 1
            return None
        if op['k'] == 'hold_view':
            f = O.resolve_f(run.root, op['path'])
            v = getattr(f, op['field'])
            if not hasattr(v, '_base_indices'):
                raise O.Skip('notview')
            len(v)
            self.views[op['name']] = (v, f, op['field'])
            return None
        return super().apply(op)

    def compare(self):
        import fst
        from . import queries
        run = self.run
        live = queries.query_tree(run.root, 2)
        fresh_root = fst.FST(run.root.src, 'exec')
        fresh = queries.query_tree(fresh_root, 2)
        run.stats['full_comparisons'] += 1
        run.stats['nodes_compared'] += len(live)
        if live != fresh:
            d = queries.diff(live, fresh)
            # input predicates for the known-findings file: the root's default indentation unit is inferred once, when
            # the tree is built; a fresh tree of the CURRENT source may infer another one
            P = set()
            if getattr(run.root, 'indent', None) != getattr(fresh_root, 'indent', None):
                P.add('root_indent_differs_from_fresh')
            full = queries.diff(live, fresh, limit=10 ** 6)
            if full and all(len(x) == 4 and x[1] in ('own_src', 'own_lines') for x in full):
                P.add('only_own_src_differs')
            self.last_P = P
            raise Violation('answer_differs_from_fresh_tree', repr(d)[:1500])
        # held whole-field views
        for name, (v, f, field) in self.views.items():
            if f.a is None or f.root is not run.root:
                continue
            cur = getattr(f.a, field, None)
            if not isinstance(cur, list):
                continue
            try:
                n = len(v)
                items = [v[i] for i in range(n)]
            except Exception as e:
                raise Violation('held_view_raises', O.exc_repr(e))
            if n != len(cur) or any((getattr(x, 'a', x) is not y) for x, y in zip(items, cur)):
                raise Violation('held_view_stale', f'view {field} len {n} vs field len {len(cur)}')
            run.stats['held_view_checks'] += 1

    def post_op(self, op, ctx, out):
        run = self.run
        if op['k'] in ('query', 'hold_view'):
            return
        if out[0] == 'ok':
            run.core_after_ok(False)
        elif out[0] == 'exc':
            if check_consistent(run.root) is not None or modifying_registry():
                run.stats['collateral_c12'] += 1
                raise StopRun()
        if id(run.root) != run.root_id:
            raise Violation('root_identity', 'root object changed')
        mode = run.cfg['check_mode']
        if out[0] == 'ok' and (mode == 'every' or (mode == 'end_and_mid' and run.step % 3 == 2)):
            self.compare()

    def finish(self):
        self.compare()

    def extra_sig(self):
        return {'predicates': sorted(getattr(self, 'last_P', ()))}
