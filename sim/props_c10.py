"""C10 - raw source edits are equivalent to re-parsing the whole file, or change nothing.
C11 - whitespace-only source edits in offset mode keep every node on its text."""

import ast
import copy
import io
import tokenize

from . import ops as O
from .editsim import Plugin, StopRun, Violation, check_consistent, modifying_registry, plugin
from .model import fdump, iter_paths, parse_full, path_str, resolve, sdump
from . import progen
from .progen import try_toks

SOUP = ['x', 'y', 'zz', '1', "'s'", '+', '-', '*', '.', ',', '(', ')', '[', ']', ':', '=', ' ', '  ', '\n', '\n    ',
        'if', 'else', 'and', 'not', 'in', 'is', 'lambda', 'for', 'await', '**', '==', ':=', ';', '#c', '\\\n', 'ä', '🎉',
        'pass', 'return', 'def', '@', '{', '}', 'None', '->', 'f(x)', 'x.y', '"', "'", '...', 'async', 'elif x:', 'else:',
        '\n\n', '\t', 'yield', '*x', 'x, y', '[x]', 'x if y else z']


_BLINES = [None]


def splice(src, ln, col, end_ln, end_col, text):
    lines = src.split('\n')
    head = lines[ln][:col]
    tail = lines[end_ln][end_col:]
    new = (head + text + tail).split('\n')
    lines[ln:end_ln + 1] = new
    return '\n'.join(lines)


def stmt_units(tree, toks, src_blines=None):
    """Innermost 'units' for the safe-domain predicate: simple statements and block headers, each with the list of its
    significant tokens [(start, end)], in source order."""
    sig = [t for t in toks if t.type not in (tokenize.NL, tokenize.NEWLINE, tokenize.INDENT, tokenize.DEDENT, tokenize.ENDMARKER, tokenize.COMMENT)]
    units = []
    if src_blines is None:
        src_blines = _BLINES[0]

    def span_tokens(a, b):
        return [t for t in sig if t.start >= a and t.end <= b]

    for node in ast.walk(tree):
        if not isinstance(node, (ast.stmt, ast.ExceptHandler, ast.match_case)):
            continue
        if isinstance(node, ast.match_case):  # no position of its own: from its 'case' keyword
            pat = node.pattern
            kw = [t for t in sig if t.string == 'case' and t.start < (pat.lineno, pat.col_offset)]
            if not kw:
                continue
            start = (kw[-1].start[0], 0)
        else:
            start = (node.lineno, node.col_offset)
        if getattr(node, 'decorator_list', None):
            start = (node.decorator_list[0].lineno, 0)
        body = getattr(node, 'body', None)
        if isinstance(node, ast.Match):
            body = node.cases
        if isinstance(body, list) and body:
            b0 = body[0]
            if hasattr(b0, 'lineno'):
                bstart = (b0.lineno, 0 if getattr(b0, 'decorator_list', None) else getattr(b0, 'col_offset', 0))
            else:  # match_case has no position: its 'case' keyword token
                pat = b0.pattern
                kw = [t for t in sig if t.string == 'case' and t.start < (pat.lineno, pat.col_offset)]
                bstart = kw[-1].start if kw else (pat.lineno, 0)
            ts = [t for t in sig if t.start >= (start[0], 0) and t.start < bstart and t.start[0] >= start[0]]
            ts = [t for t in ts if (t.start[0], t.start[1]) >= (start[0], 0)]
            units.append(('header', node, ts))
        else:
            blines = src_blines
            sc = len(blines[node.lineno - 1][:node.col_offset].decode()) if not getattr(node, 'decorator_list', None) else 0
            ec = len(blines[node.end_lineno - 1][:node.end_col_offset].decode())
            ts = [t for t in sig if t.start >= (start[0], sc) and t.end <= (node.end_lineno, ec)]
            units.append(('simple', node, ts))
    return units


def skeleton(tree):
    out = []

    def rec(node, d):
        for f in ('body', 'orelse', 'finalbody', 'handlers', 'cases'):
            for ch in getattr(node, f, None) or []:
                if isinstance(ch, (ast.stmt, ast.ExceptHandler, ast.match_case)):
                    out.append((d, f, ch.__class__.__name__))
                    rec(ch, d + 1)
    rec(tree, 0)
    return out


def predicates(src, rect, want):
    """Named input predicates of a raw request, from the request and the independent parser only."""
    ln, col, end_ln, end_col = rect
    P = set()
    tree = parse_full(src)
    toks = try_toks(src)
    if tree is None or toks is None:
        return {'pre_unparsable'}
    a, b = (ln + 1, col), (end_ln + 1, end_col)
    lines = src.split('\n')
    if (ln, col) == (0, 0) and (end_ln, end_col) == (len(lines) - 1, len(lines[-1])):
        P.add('whole_source')
    # innermost unit containing the rectangle strictly inside (first and last token intact)
    inside = None
    _BLINES[0] = [l.encode() for l in src.split('\n')]
    for kind, node, ts in stmt_units(tree, toks):
        if len(ts) < 2:
            continue
        first, last = ts[0], ts[-1]
        if a >= first.end and b <= last.start:
            # and must not cross into a nested unit's token list beyond this one: ensure every token overlapping the
            # rect belongs to ts
            if inside is None or len(ts) < len(inside[2]):
                inside = (kind, node, ts)
    if inside is None:
        P.add('touches_statement_boundary')
    else:
        if isinstance(inside[1], ast.ExceptHandler):
            P.add('in_except_header')
        ts = inside[2]
        owned = {(t.start, t.end) for t in ts}
        sig = [t for t in toks if t.type not in (tokenize.NL, tokenize.NEWLINE, tokenize.INDENT, tokenize.DEDENT, tokenize.ENDMARKER)]
        for t in sig:
            if t.end > a and t.start < b and (t.start, t.end) not in owned and t.type != tokenize.COMMENT:
                P.add('touches_statement_boundary')
                break
    wt = parse_full(want)
    if wt is not None and skeleton(wt) != skeleton(tree):
        P.add('changes_statement_skeleton')
    if wt is None:
        P.add('result_invalid')
    if end_ln != ln:
        P.add('rect_multiline')
    # the text that the request REMOVES: taking a quote, '#' or backslash away re-tokenizes what follows just as inserting
    # one does (a comment becomes part of a string, ...): same families as text_has_quote / _comment / _backslash
    old = lines[ln][col:end_col] if ln == end_ln else '\n'.join([lines[ln][col:]] + lines[ln + 1:end_ln] + [lines[end_ln][:end_col]]) if end_ln < len(lines) else ''
    if '"' in old or "'" in old:
        P.add('text_has_quote')
    if '#' in old:
        P.add('text_has_comment')
    if '\\' in old:
        P.add('text_has_backslash')
    return P


def text_predicates(text):
    P = set()
    if '\n' in text:
        P.add('text_multiline')
    if '#' in text:
        P.add('text_has_comment')
    if '"' in text or "'" in text:
        P.add('text_has_quote')
    if '\\' in text:
        P.add('text_has_backslash')
    return P


@plugin
class C10(Plugin):
    prop = 'C10'
    n_steps = (1, 4)

    def configure(self, rng):
        cfg = super().configure(rng)
        cfg['p_mb_prefix'] = rng.choice([0.0, 0.0, 0.4, 0.8])
        cfg['p_safe'] = rng.choice([0.5, 0.7, 0.9])
        cfg['p_edit'] = rng.choice([0.0, 0.15])
        cfg['base_opts'] = {}
        cfg['max_lines'] = 30
        return cfg

    def program(self, rng, cfg):
        src = Plugin.program(self, rng, cfg)
        for _ in range(rng.choice([0, 0, 2, 5])):  # more block headers with trivia in front of their ':' (header-only reparse path)
            new = progen.p_colon_space(rng, src, {})
            if new is not None and progen.try_parse(new) is not None and progen.try_toks(new):
                src = new
        if cfg.get('p_mb_prefix'):
            new = progen.mb_prefix(rng, src, cfg['p_mb_prefix'])
            if new != src:
                self.run.stats['program_with_multibyte_prefixed_statements'] += 1
            src = new
        return src

    def gen_rect(self, rng, src, safe):
        toks = try_toks(src)
        tree = parse_full(src)
        if toks is None or tree is None:
            return None
        lines = src.split('\n')
        if safe:
            _BLINES[0] = [l.encode() for l in src.split('\n')]
            units = [u for u in stmt_units(tree, toks) if len(u[2]) >= 2]
            if not units:
                return None
            kind, node, ts = rng.choices(units, [3 if u[0] == 'header' else 1 for u in units])[0]  # headers are the rarer reparse path
            first, last = ts[0], ts[-1]
            # positions: token boundaries inside (first.end .. last.start), sometimes mid-token
            pts = []
            for t in ts[1:-1]:
                pts.append(t.start)
                pts.append(t.end)
                if t.end[0] == t.start[0] and t.end[1] - t.start[1] > 1 and rng.random() < 0.2:
                    pts.append((t.start[0], rng.randrange(t.start[1] + 1, t.end[1])))
            pts.append(first.end)
            pts.append(last.start)
            for t1, t2 in zip(ts, ts[1:]):  # a column inside the whitespace between two tokens of the unit
                if t1.end[0] == t2.start[0] and t2.start[1] - t1.end[1] > 1:
                    pts.append((t1.end[0], rng.randrange(t1.end[1] + 1, t2.start[1])))
            self.tiny_unit = len(ts) == 2
            pts = sorted(set(p for p in pts if first.end <= p <= last.start))
            a = rng.choice(pts)
            later = [p for p in pts if p >= a]
            b = rng.choice(later[:4]) if rng.random() < 0.8 else rng.choice(later)
            return a[0] - 1, a[1], b[0] - 1, b[1]
        r = rng.random()
        if r < 0.5:
            sig = [t for t in toks if t.type not in (tokenize.ENDMARKER, tokenize.DEDENT, tokenize.INDENT)]
            if not sig:
                return None
            i = rng.randrange(len(sig))
            j = min(len(sig) - 1, i + rng.choice([0, 0, 1, 2, 5]))
            a = rng.choice([sig[i].start, sig[i].end])
            b = rng.choice([sig[j].start, sig[j].end])
            if b < a:
                a, b = b, a
            if a[0] > len(lines) or b[0] > len(lines):
                return None
            return a[0] - 1, a[1], b[0] - 1, b[1]
        if r < 0.6:
            return 0, 0, len(lines) - 1, len(lines[-1])
        ln = rng.randrange(len(lines))
        col = rng.randint(0, len(lines[ln]))
        end_ln = min(len(lines) - 1, ln + rng.choice([0, 0, 0, 1, 2]))
        end_col = rng.randint(col if end_ln == ln else 0, len(lines[end_ln])) if len(lines[end_ln]) >= (col if end_ln == ln else 0) else col
        return ln, col, end_ln, end_col

    def gen_text(self, rng):
        if rng.random() < (0.6 if getattr(self, 'tiny_unit', False) else 0.12):  # whitespace only: the one kind of text that is valid inside a bare header ('try  :', 'else :')
            return rng.choice([' ', '  ', '\t', '   ', ' \\\n', ' \\\n  '])
        n = rng.choice([0, 1, 1, 1, 2, 2, 3])
        parts = [rng.choice(SOUP) for _ in range(n)]
        return rng.choice(['', ' ']).join(parts)

    def gen_op(self, rng):
        run = self.run
        root = run.root
        src = root.src
        if rng.random() < run.cfg['p_edit']:
            return O.gen_edit(rng, root.a, dict(run.cfg, base_opts={}))
        r = rng.random()
        if r < 0.08:
            nodes = O.all_nodes(root.a)
            path = rng.choice(nodes)[0] if nodes and rng.random() < 0.8 else ()
            return {'k': 'reparse', 'path': [list(p) for p in path]}
        if r < 0.25:
            # raw node put
            c = dict(run.cfg, weights={'replace': 3, 'put': 1, 'put_slice': 1, 'remove': 1}, opt_rate=0.0)
            op = O.gen_edit(rng, root.a, c)
            if op is None:
                return None
            op['opts'] = {'raw': rng.choice([True, True, 'auto'])}
            if 'code' in op and op['code'].get('form') == 'src' and rng.random() < 0.3:
                op['code'] = dict(op['code'], text=self.gen_text(rng))
            op['rawput'] = True
            return op
        safe = rng.random() < run.cfg['p_safe']
        rect = self.gen_rect(rng, src, safe)
        if rect is None:
            return None
        nodes = O.all_nodes(root.a)
        path = rng.choice(nodes)[0] if nodes and rng.random() < 0.3 else ()
        return {'k': 'put_src', 'path': [list(p) for p in path], 'rect': list(rect), 'text': self.gen_text(rng),
                'safe_gen': safe, 'as': rng.choice(['str', 'str', 'lines'])}

    def pre_op(self, op):
        run = self.run
        ctx = {'src': run.root.src, 'dump': fdump(run.root.a)}
        if op['k'] == 'put_src':
            ln, col, end_ln, end_col = op['rect']
            lines = ctx['src'].split('\n')
            if not (0 <= ln <= end_ln < len(lines) and 0 <= col <= len(lines[ln]) and 0 <= end_col <= len(lines[end_ln]) and (ln, col) <= (end_ln, end_col)):
                ctx['bad_rect'] = True
                return ctx
            ctx['want'] = splice(ctx['src'], ln, col, end_ln, end_col, op['text'])
        return ctx

    def apply(self, op):
        run = self.run
        k = op['k']
        if k == 'put_src':
            f = O.resolve_f(run.root, op['path'])
            lines = run.root.src.split('\n')
            ln, col, end_ln, end_col = op['rect']
            if not (0 <= ln <= end_ln < len(lines) and 0 <= col <= len(lines[ln]) and 0 <= end_col <= len(lines[end_ln]) and (ln, col) <= (end_ln, end_col)):
                raise O.Skip('rect')
            code = op['text'] if op.get('as') != 'lines' else op['text'].split('\n')
            return f.put_src(code, ln, col, end_ln, end_col, 'reparse')
        if k == 'reparse':
            f = O.resolve_f(run.root, op['path'])
            return f.reparse()
        return super().apply(op)

    def post_op(self, op, ctx, out):
        run = self.run
        root = run.root
        k = op['k']
        if out[0] == 'skip':
            return
        raw = k in ('put_src', 'reparse') or op.get('rawput')
        if not raw:
            if out[0] == 'ok':
                run.core_after_ok(False)
            elif check_consistent(root) is not None or modifying_registry():
                run.stats['collateral_c12'] += 1
                raise StopRun()
            return
        run.stats['raw_' + k] += 1
        if id(root) != run.root_id:
            raise Violation('root_identity', 'root object changed')
        P = set()
        if k == 'put_src' and 'want' in ctx:
            P = predicates(ctx['src'], op['rect'], ctx['want']) | text_predicates(op['text'])
        if op.get('rawput'):
            P = {'raw_node_put'}
            if (op.get('opts') or {}).get('raw') == 'auto':
                P.add('raw_auto')
        self.last_P = P
        indomain = k == 'put_src' and not (P - {'result_invalid'})
        if k == 'put_src':
            run.stats['domain_safe' if indomain else 'domain_boundary'] += 1
        if out[0] == 'exc':
            e = out[1]
            run.stats['raw_raised'] += 1
            if root.src != ctx['src']:
                raise Violation('source_changed_by_failed_raw_edit', f'{O.exc_repr(e)} before={ctx["src"][:300]!r} after={root.src[:300]!r}')
            if fdump(root.a) != ctx['dump']:
                raise Violation('tree_changed_by_failed_raw_edit', O.exc_repr(e))
            if modifying_registry():
                raise Violation('lock_survives_failed_raw_edit', O.exc_repr(e))
            if isinstance(e, NotImplementedError):
                run.stats['refused_not_implemented'] += 1
                return
            if k == 'put_src' and 'want' in ctx and parse_full(ctx['want']) is not None:
                run.stats['refused_valid'] += 1
                raise Violation('valid_raw_edit_refused', f'{O.exc_repr(e)} | P={sorted(P)} rect={op["rect"]} text={op["text"]!r} want={ctx["want"][:400]!r}')
            if k == 'reparse':
                if isinstance(e, ValueError) and 'without a location' in str(e):
                    return  # documented precondition
                raise Violation('reparse_of_valid_tree_raises', O.exc_repr(e))
            return
        run.stats['raw_accepted'] += 1
        if k == 'put_src' and 'want' in ctx:
            if root.src != ctx['want']:
                raise Violation('source_is_not_requested_splice', f'want={ctx["want"][:300]!r} got={root.src[:300]!r}')
        if k == 'reparse' and root.src != ctx['src']:
            raise Violation('reparse_changed_source', '')
        bad = check_consistent(root)
        if bad is not None:
            if bad[0] == 'unparsable' or bad[0] == 'root_type':
                raise Violation('invalid_raw_edit_accepted', f'{bad[1]} | P={sorted(P)} src={root.src[:400]!r}')
            raise Violation('tree_differs_from_full_parse', f'{bad[0]}: {bad[1]} | P={sorted(P)}')
        if modifying_registry():
            raise Violation('lock_survives_raw_edit', '')

    def extra_sig(self):
        return {'predicates': sorted(getattr(self, 'last_P', ()))}


# ======================================================================================================================
# C11

def tdump(tree):
    """Structure dump for the 'pure trivia' precondition: string Constants that are literal parts of an f-string are
    masked, because the text of a self-documenting field (f'{a + b=}') legitimately follows the spacing inside it."""
    t = copy.deepcopy(tree)
    for n in ast.walk(t):
        if isinstance(n, ast.JoinedStr):
            for v in n.values:
                if isinstance(v, ast.Constant):
                    v.value = '?'
    return sdump(t)


def gaps(src):
    """Gaps between consecutive significant tokens: [(end_of_prev(line, col), start_of_next, depth, prev_tok, next_tok)]."""
    toks = try_toks(src)
    if toks is None:
        return []
    out = []
    depth = 0
    fdepth = 0
    prev = None
    for t in toks:
        if t.type == tokenize.FSTRING_START:
            fdepth += 1
        if t.type in (tokenize.NL, tokenize.COMMENT, tokenize.INDENT, tokenize.DEDENT):
            continue
        # gaps inside the replacement fields of f-strings count too (between expression tokens; never next to literal text)
        if prev is not None and prev.type not in (tokenize.NEWLINE,) and t.type not in (tokenize.NEWLINE, tokenize.ENDMARKER) \
                and prev.type not in (tokenize.FSTRING_START, tokenize.FSTRING_MIDDLE, tokenize.FSTRING_END) \
                and t.type not in (tokenize.FSTRING_START, tokenize.FSTRING_MIDDLE, tokenize.FSTRING_END) \
                and not (fdepth and (prev.string in ('!', ':') or t.string in ('!', ':'))):
            out.append((prev.end, t.start, depth, prev, t))
        if t.type == tokenize.FSTRING_END:
            fdepth -= 1
        if t.type == tokenize.OP:
            if t.string in '([{':
                depth += 1
            elif t.string in ')]}':
                depth -= 1
        prev = t
    return out


def innermost_strictly_containing(tree, src, a, b):
    """Path of the innermost positioned node whose extent strictly contains the spot [a, b] (1-based line, char col):
    start < a and b < end.  Pure-AST computation."""
    blines = [ln.encode() for ln in src.split('\n')]

    def c(lno, boff):
        return len(blines[lno - 1][:boff].decode())
    best = None
    for path, node, _, _, _ in iter_paths(tree):
        if not hasattr(node, 'lineno') or node.end_lineno is None:
            continue
        s = (node.lineno, c(node.lineno, node.col_offset))
        e = (node.end_lineno, c(node.end_lineno, node.end_col_offset))
        if s < a and b < e:
            if best is None or (s, e) != best[1] and (s >= best[1][0] and e <= best[1][1]):
                best = (path, (s, e))
            elif (s, e) == best[1] and len(path) > len(best[0]):
                best = (path, (s, e))
    return best


def offset_precondition(src, op):
    """None if the recorded offset request is (still) a pure-trivia edit on the innermost containing node, else a reason."""
    lines = src.split('\n')
    ln, col, end_ln, end_col = op['rect']
    if not (0 <= ln <= end_ln < len(lines) and 0 <= col <= len(lines[ln]) and 0 <= end_col <= len(lines[end_ln])):
        return 'rect'
    want = splice(src, ln, col, end_ln, end_col, op['text'])
    wt, t0 = parse_full(want), parse_full(src)
    if wt is None or t0 is None or tdump(wt) != tdump(t0):
        return 'not trivia'
    best = innermost_strictly_containing(t0, src, (ln + 1, col), (end_ln + 1, end_col))
    if best is None or isinstance(resolve(t0, best[0]), ast.Constant) or [list(p) for p in best[0]] != op['path']:
        return 'node'
    return None


def gen_offset_op(rng, src):
    """A pure-trivia `put_src(..., action='offset')` request on the innermost node strictly containing the spot."""
    gs = gaps(src)
    if not gs:
        return None
    for _ in range(6):
        pe, ns, depth, pt, nt = rng.choice(gs)
        lines = src.split('\n')
        cur_single = pe[0] == ns[0]
        # replacement trivia
        choices = ['', ' ', '  ', '   ', '\t']
        if depth > 0:
            choices += ['\n', '\n    ', '\n' + ' ' * rng.randint(0, 12), ' # k\n', '  # ä🎉\n  ', '\n\n  ', '\n# own line\n    ']
        else:
            choices += [' \\\n', '\\\n  ', ' \\\n' + ' ' * rng.randint(0, 8)]
        text = rng.choice(choices)
        # sub-rectangle of the gap (whole gap, or a part of it when single-line)
        if cur_single and ns[1] > pe[1] and rng.random() < 0.5:
            c0 = rng.randint(pe[1], ns[1])
            c1 = rng.randint(c0, ns[1])
            rect = (pe[0] - 1, c0, pe[0] - 1, c1)
        else:
            rect = (pe[0] - 1, pe[1], ns[0] - 1, ns[1])
        want = splice(src, *rect, text)
        wt = parse_full(want)
        t0 = parse_full(src)
        if wt is None or t0 is None or tdump(wt) != tdump(t0):
            continue  # not pure trivia
        a = (rect[0] + 1, rect[1])
        b = (rect[2] + 1, rect[3])
        best = innermost_strictly_containing(t0, src, a, b)
        if best is None or isinstance(resolve(t0, best[0]), ast.Constant):  # inside a leaf's own text (debug text of f'{a=}'): not trivia
            continue
        return {'k': 'offset', 'path': [list(p) for p in best[0]], 'rect': list(rect), 'text': text}
    return None


@plugin
class C11(Plugin):
    prop = 'C11'
    n_steps = (1, 8)

    def configure(self, rng):
        cfg = super().configure(rng)
        cfg['p_edit'] = rng.choice([0.0, 0.2, 0.4])
        cfg['p_mb_prefix'] = rng.choice([0.0, 0.0, 0.4, 0.8])
        cfg['max_lines'] = 40
        return cfg

    program = C10.program

    def extra_sig(self):
        return {'predicates': sorted(getattr(self, 'last_P', ()))}

    def gen_op(self, rng):
        run = self.run
        root = run.root
        if rng.random() < run.cfg['p_edit']:
            return O.gen_edit(rng, root.a, run.cfg)
        return gen_offset_op(rng, root.src)

    def pre_op(self, op):
        run = self.run
        self.last_P = text_predicates(op['text']) if op['k'] == 'offset' else set()
        if op['k'] != 'offset':
            return None
        src = run.root.src
        lines = src.split('\n')
        ln, col, end_ln, end_col = op['rect']
        if not (0 <= ln <= end_ln < len(lines) and 0 <= col <= len(lines[ln]) and 0 <= end_col <= len(lines[end_ln])):
            return {'skip': True}
        want = splice(src, ln, col, end_ln, end_col, op['text'])
        wt, t0 = parse_full(want), parse_full(src)
        if wt is None or t0 is None or tdump(wt) != tdump(t0):
            return {'skip': True}
        best = innermost_strictly_containing(t0, src, (ln + 1, col), (end_ln + 1, end_col))
        if best is None or isinstance(resolve(t0, best[0]), ast.Constant) or [list(p) for p in best[0]] != op['path']:
            return {'skip': True}
        return {'want': want, 'wt': wt, 'src': src}

    def apply(self, op):
        run = self.run
        if op['k'] != 'offset':
            return super().apply(op)
        f = O.resolve_f(run.root, op['path'])
        return f.put_src(op['text'], *op['rect'], 'offset')

    def post_op(self, op, ctx, out):
        run = self.run
        root = run.root
        if op['k'] != 'offset':
            if out[0] == 'ok':
                run.core_after_ok(False)
            elif out[0] == 'exc' and (check_consistent(root) is not None or modifying_registry()):
                run.stats['collateral_c12'] += 1
                raise StopRun()
            return
        if ctx.get('skip') or out[0] == 'skip':
            run.stats['offset_precondition_not_met'] += 1
            if out[0] == 'ok':
                raise StopRun()
            return
        run.stats['offset_edits'] += 1
        if '\n' in op['text']:
            run.stats['offset_multiline'] += 1
        if out[0] == 'exc':
            raise Violation('offset_edit_raises', O.exc_repr(out[1]) + f' rect={op["rect"]} text={op["text"]!r}')
        if root.src != ctx['want']:
            raise Violation('source_is_not_requested_splice', f'want={ctx["want"][:300]!r} got={root.src[:300]!r}')
        d1, d2 = fdump(ctx['wt']), fdump(root.a)
        if d1 != d2:
            from .editsim import _first_diff
            raise Violation('tree_differs_from_full_parse_after_offset', _first_diff(d1, d2) + f' | rect={op["rect"]} text={op["text"]!r}')
        if modifying_registry():
            raise Violation('lock_survives', '')
