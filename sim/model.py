"""Reference-model helpers built only from `ast` and `tokenize` (never from pfst)."""

import ast
import io
import keyword
import tokenize

from .progen import SOFT_KW, try_parse, try_toks


def fdump(tree):
    """Full dump with positions."""
    return ast.dump(tree, include_attributes=True)


def sdump(tree):
    return ast.dump(tree)


def parse_full(src):
    """ast.parse or None."""
    return try_parse(src)


# ----------------------------------------------------------------------------------------------------------------------
# paths: list of [field, idx|None]

def iter_paths(tree):
    """Yield (path, node, parent, field, idx) for every AST node below `tree` in field order (pure AST walk)."""
    stack = [((), tree)]
    while stack:
        path, node = stack.pop()
        kids = []
        for field, val in ast.iter_fields(node):
            if isinstance(val, ast.AST):
                kids.append((path + ((field, None),), val, node, field, None))
            elif isinstance(val, list):
                for i, v in enumerate(val):
                    if isinstance(v, ast.AST):
                        kids.append((path + ((field, i),), v, node, field, i))
        for k in kids:
            yield k
        for k in reversed(kids):
            stack.append((k[0], k[1]))


def resolve(tree, path):
    """Resolve a path on a pure AST; None if it does not resolve."""
    node = tree
    for field, idx in path:
        try:
            node = getattr(node, field)
            if idx is not None:
                if not isinstance(node, list) or not -len(node) <= idx < len(node):
                    return None
                node = node[idx]
        except AttributeError:
            return None
        if not isinstance(node, ast.AST):
            return None
    return node


def path_str(path):
    return '.'.join(f if i is None else f'{f}[{i}]' for f, i in path)


def count_nodes(tree):
    return sum(1 for _ in ast.walk(tree))


# ----------------------------------------------------------------------------------------------------------------------
# tokens

def sig_tokens(src):
    """List of (type, string) of significant tokens incl. comments; None if not tokenizable."""
    tk = try_toks(src)
    if tk is None:
        return None
    return [t for t in tk if t.type not in (tokenize.NL, tokenize.NEWLINE, tokenize.INDENT, tokenize.DEDENT, tokenize.ENDMARKER)]


def is_unique_kind(t):
    """Token kinds that are made unique in unique-token mode."""
    if t.type == tokenize.NAME:
        return not keyword.iskeyword(t.string) and t.string not in SOFT_KW
    return t.type in (tokenize.NUMBER, tokenize.STRING, tokenize.COMMENT)


def unique_tokens(src):
    """Ordered list of texts of unique-kind tokens."""
    tk = sig_tokens(src)
    if tk is None:
        return None
    return [t.string.rstrip() if t.type == tokenize.COMMENT else t.string for t in tk if is_unique_kind(t)]
