"""walksim (C15): coroutine scheduler.  The generator under test (walk / search) and the mutator are two parties whose
only synchronisation points are the generator's yields; at each yield the scheduler draws an action."""

import ast
import collections
import copy
import hashlib
import random

from . import corpus
from . import ops as O
from . import progen
from .editsim import check_consistent, modifying_registry
from .model import count_nodes

ACTIONS = ['none', 'replace', 'remove', 'replace_anc', 'remove_anc', 'replace_prev', 'remove_prev', 'replace_next',
           'remove_next', 'insert_before', 'send_false', 'send_true', 'slice_del_next', 'slice_put_next', 'slice_del_prev',
           'slice_put_prev']
ORDER_ACTIONS = ['none', 'replace', 'remove', 'send_false']

ALL_VALUES = [False, True, 'loc', 'Name', 'Call', 'set:Name,Constant', 'set:If,For,FunctionDef,Return,Assign,Expr']

_STMT_CODE = ['pass', 'nx = ny', 'nf(nx)', 'if nx:\n    ny', 'for nx in ny:\n    nz\n    nw', 'def ng(na):\n    return na',
              'nx = [ny, nz]', 'return nx + ny', 'while nx:\n    ny\nelse:\n    nz', 'with nx:\n    ny']
_EXPR_CODE = ['nx', 'nf(ny, nz)', '7', 'nx + ny * nz', '[nx, ny]', 'nx.ny', '(nx, ny)', 'nx if ny else nz', 'not nx',
              'nx and ny', 'nf(ng(nh))', '{nx: ny}', 'lambda: nx', '[nq for nq in nr]', '(nq for nq in nr if ns)',
              'lambda nq=nx: nq + ny', '{nq: nr for nq in ns for nt in nq}', '[nq for nq in [nr for nr in ns]]']


def _all_arg(v):
    if isinstance(v, str) and v.startswith('set:'):
        return {getattr(ast, n) for n in v[4:].split(',')}
    if isinstance(v, str) and v not in ('loc',):
        return getattr(ast, v)
    return v


def code_for(rng, node):
    cat = O.node_cat(node)
    if cat == 'stmt':
        return {'form': rng.choice(['src', 'src', 'fst', 'ast']), 'cat': 'stmt', 'text': rng.choice(_STMT_CODE)}
    if cat == 'expr':
        return {'form': rng.choice(['src', 'src', 'fst', 'ast']), 'cat': 'expr', 'text': rng.choice(_EXPR_CODE)}
    if cat in O.POOLS:
        return {'form': 'src', 'cat': cat, 'text': rng.choice(O.POOLS[cat])}
    return {'form': 'src', 'cat': 'expr', 'text': 'nx'}


def code_nodes(code):
    a = O.harness_ast(code.get('cat', 'expr'), code['text'])
    return count_nodes(a) if a is not None else 8


class WalkRun:
    def __init__(self, prop, seed=None, case=None, extra=None):
        self.prop = prop
        self.seed = seed
        self.rng = random.Random(seed) if case is None else None
        self.case_in = case
        self.stats = collections.Counter()
        self.tuples = set()
        self.viol = None
        self.log = []

    def fail(self, kind, detail, y):
        if self.viol is None:
            self.viol = {'kind': kind, 'step': y, 'detail': detail[:1500]}

    # -----------------------------------------------------------------------------------------------------------------

    def run(self):
        import fst
        FST = fst.FST
        rng = self.rng
        if self.case_in is None:
            cfg = progen.swarm_cfg(rng, max_lines=40)
            order_mode = rng.random() < 0.35
            cfg.update(
                kind=rng.choice(['walk', 'walk', 'walk', 'search']),
                all=rng.choice(ALL_VALUES) if not order_mode else rng.choice([True, True, False, 'loc']),
                on='enter' if order_mode else rng.choice(['enter', 'enter', 'leave', 'both']),
                back=rng.random() < 0.3, recurse=rng.random() < 0.85, self_=rng.random() < 0.8,
                scope=False, order_mode=order_mode, p_act=rng.choice([0.1, 0.25, 0.5]),
                start=rng.random() < 0.3, nested=rng.random() < 0.7,
            )
            if cfg['on'] == 'enter' and rng.random() < (0.3 if order_mode else 0.2):
                cfg['scope'] = True
            cfg['acts'] = ORDER_ACTIONS if order_mode else ([a for a in ACTIONS if rng.random() < 0.7] or ['replace'])
            if 'none' not in cfg['acts']:
                cfg['acts'] = ['none'] + cfg['acts']
            cfg['pat'] = rng.choice(['Name', 'Call', 'Constant', 'BinOp', 'If', 'Assign', 'Expr', '...'])
            program = progen.gen_program(rng, cfg, self.stats)
            sched_in = None
        else:
            cfg = self.case_in['config']
            program = self.case_in['program']
            sched_in = self.case_in['schedule']
        self.cfg, self.program = cfg, program
        self.schedule = sched = []
        old = FST.set_options(norm=True)
        try:
            root = FST(program, 'exec')
            self.root = root
            start = root
            if cfg.get('start'):
                # a deterministic sub-node: the first block statement or first statement
                for n in root.walk(True):
                    if n is not root and isinstance(n.a, (ast.FunctionDef, ast.ClassDef, ast.If, ast.For, ast.While, ast.With, ast.Try)):
                        start = n
                        break
            self.start = start
            total_nodes = count_nodes(root.a)
            kw = dict(self_=cfg['self_'], recurse=cfg['recurse'], scope=cfg['scope'], back=cfg['back'])
            all_arg = _all_arg(cfg['all'])
            if cfg['kind'] == 'walk':
                gen = start.walk(all_arg, cfg['on'], **kw)
            else:
                pat = ... if cfg['pat'] == '...' else getattr(ast, cfg['pat'])
                gen = start.search(pat, cfg['nested'], on=cfg['on'], **kw)
            self.kw, self.all_arg = kw, all_arg
            seen = {}
            keep = []
            skip_roots = []   # (FST wrapper, AST) after send(False): no descendant may be yielded
            expect_next = None  # AST node expected at the next yield (order oracle)
            y = 0
            sent_true_for = None
            while True:
                try:
                    item = next(gen)
                except StopIteration:
                    break
                except Exception as e:
                    self.fail('iteration_raises', O.exc_repr(e), y)
                    break
                leaving = False
                g = item
                if cfg['on'] == 'both':
                    g, leaving = item
                if cfg['kind'] == 'search':
                    g = g.matched
                y += 1
                bound = 4 * total_nodes + 16
                if y > bound:
                    self.fail('does_not_terminate', f'{y} yields for {total_nodes} nodes ever created', y)
                    break
                # ---- monitors
                if g is None or not hasattr(g, 'a'):
                    self.fail('non_node_yielded', f'yield {y}: {g!r}', y)
                    break
                a = g.a
                if a is None:
                    self.fail('dead_node_yielded', f'yield {y}: node has no AST', y)
                    break
                if g.root is not root:
                    self.fail('node_of_other_tree_yielded', f'yield {y}: {g!r}', y)
                    break
                bad = self.chain_broken(g)
                if bad:
                    self.fail('detached_node_yielded', f'yield {y}: {g!r}: {bad}', y)
                    break
                entering = cfg['on'] == 'enter' or (cfg['on'] == 'both' and not leaving)
                if entering:
                    if id(a) in seen:
                        self.fail('same_node_yielded_twice_on_entry', f'yield {y} and {seen[id(a)]}: {g!r} {a.__class__.__name__}', y)
                        break
                    seen[id(a)] = y
                    keep.append(a)
                for sf, sa in skip_roots:
                    if sf.a is sa and sf is not g and self.is_descendant(g, sf):
                        self.fail('descendant_yielded_after_send_false', f'yield {y}: {g!r} under {sf!r}', y)
                        break
                if self.viol:
                    break
                if expect_next is not None and entering:
                    want = expect_next
                    expect_next = None
                    if want is not a:
                        self.fail('walk_order_after_action', f'yield {y}: expected {want.__class__.__name__} at {self.where(want)}, got {a.__class__.__name__} at {self.where(a)}', y)
                        break
                    self.stats['order_checks'] += 1
                if sent_true_for is not None and not entering and g is sent_true_for[0]:
                    sent_true_for = None  # the node is being left: it had nothing to walk when send(True) was issued
                if sent_true_for is not None and entering:
                    (st, kids), sent_true_for = sent_true_for, None
                    if kids and st.a is not None and cfg['all'] is True and cfg['kind'] == 'walk' and not self.is_descendant(g, st):
                        self.fail('send_true_not_honoured', f'yield {y}: {g!r} is not under {st!r}', y)
                        break
                # ---- scheduler
                if sched_in is not None:
                    act = sched_in[y - 1] if y - 1 < len(sched_in) else {'a': 'none'}
                else:
                    act = self.draw_action(rng, g, leaving, entering)
                sched.append(act)
                pre_order = None
                if cfg['order_mode'] and entering and cfg['kind'] == 'walk':
                    pre_order = self.quiescent()
                link = (g.parent, g.pfield)
                outcome = self.perform(act, g, gen, leaving, entering)
                if outcome == 'ok' and act['a'] not in ('send_false', 'send_true') and cfg.get('check_each', True):
                    if check_consistent(root) is not None:
                        self.stats['collateral_c01'] += 1
                        self.collateral = True
                        break
                self.log.append((y, a.__class__.__name__, act['a'], outcome))
                self.tuples.add(f'{cfg["kind"]}|{cfg["on"]}|{int(cfg["back"])}|{act["a"]}|{a.__class__.__name__ if act["a"] != "none" else "-"}|{outcome[:12]}')
                if act['a'] != 'none':
                    self.stats['fault_W_' + act['a'] + ('_fired' if outcome == 'ok' else '_refused')] += 1
                    if 'code' in act and outcome == 'ok':
                        total_nodes += code_nodes(act['code'])
                if act['a'] == 'send_false' and outcome == 'ok' and entering:
                    skip_roots.append((g, g.a))
                if act['a'] == 'send_true' and outcome == 'ok' and entering:
                    sent_true_for = (g, bool(list(ast.iter_child_nodes(g.a))) if g.a is not None else False)  # children at send time
                if act['a'] in ('replace', 'remove') and outcome == 'ok':
                    skip_roots = [(sf, sa) for sf, sa in skip_roots if sf.a is sa]
                # ---- order oracle (order mode only: actions restricted to current node / send(False))
                if pre_order is not None and outcome in ('ok', 'none', 'refused'):
                    expect_next = self.expected_next(pre_order, a, g, act['a'] if outcome == 'ok' else 'none', link)
            # end of iteration
            if self.viol is None and not getattr(self, 'collateral', False):
                bad = check_consistent(root)
                if bad is not None:
                    # final tree must satisfy C01: but an invalid single put is C01's own finding unless the walk caused it
                    self.stats['final_tree_inconsistent'] += 1
                    self.fail('final_tree_violates_C01', f'{bad[0]}: {bad[1]} | src={root.src[:500]!r}', y)
                if modifying_registry():
                    self.fail('lock_left', '', y)
            self.stats['yields'] += y
        finally:
            FST.set_options(**old)
            try:
                modifying_registry().clear()
            except Exception:
                pass
        return {
            'steps': len(sched), 'ok_steps': sum(1 for _, _, a, o in self.log if a != 'none' and o == 'ok'),
            'stats': dict(self.stats), 'tuples': sorted(self.tuples), 'shapes': [],
            'violation': self.viol,
            'digest': hashlib.sha1((repr(self.log) + repr(self.viol and self.viol['kind'])).encode()).hexdigest()[:16],
            'case': {'property': self.prop, 'engine': 'walksim', 'config': cfg, 'program': program, 'schedule': sched,
                     'violation': self.viol, 'seed': self.seed},
        }

    # -----------------------------------------------------------------------------------------------------------------

    def chain_broken(self, g):
        """Every parent link up to the walked root is real."""
        cur = g
        n = 0
        while cur is not self.root:
            par = cur.parent
            if par is None:
                return 'parent chain does not reach the root'
            pf = cur.pfield
            try:
                v = getattr(par.a, pf.name)
                ch = v if pf.idx is None else v[pf.idx]
            except Exception as e:
                return f'pfield {pf!r} does not resolve: {e.__class__.__name__}'
            if ch is not cur.a:
                return f'parent.{pf.name}[{pf.idx}] is not the node'
            cur = par
            n += 1
            if n > 10000:
                return 'parent chain loops'
        return None

    def is_descendant(self, g, anc):
        cur = g.parent
        while cur is not None:
            if cur is anc:
                return True
            cur = cur.parent
        return False

    def where(self, a):
        f = getattr(a, 'f', None)
        try:
            return self.root.child_path(f, True) if f is not None and f.a is a else '?'
        except Exception:
            return '?'

    def quiescent(self):
        """Quiescent walk order of the current tree (AST identities)."""
        cfg = self.cfg
        return [n.a for n in self.start.walk(self.all_arg, 'enter', **self.kw)] if self.start.a is not None else []

    def expected_next(self, pre, a, g, action, link=None):
        """AST node that must be yielded next, or None if nothing can be said."""
        try:
            i = next(k for k, x in enumerate(pre) if x is a)
        except StopIteration:
            return None
        if action == 'none':
            return pre[i + 1] if i + 1 < len(pre) else None
        if action in ('send_false', 'remove'):
            for x in pre[i + 1:]:
                f = getattr(x, 'f', None)
                if f is None or f.a is not x:
                    continue  # removed with the subtree
                if action == 'send_false' and self.is_descendant(f, g):
                    continue
                if action == 'remove' and self.chain_broken(f):
                    continue
                return x
            return None
        if action == 'replace':
            post = self.quiescent()
            # the node now at the replaced position, found through the parent link recorded BEFORE the action (not
            # through the yielded wrapper: a library that drops the wrapper's node must not switch the oracle off)
            new_a = g.a
            if link is not None and link[0] is not None and link[0].a is not None:
                try:
                    new_a = link[1].get(link[0].a)
                except Exception:
                    new_a = g.a
            try:
                j = next(k for k, x in enumerate(post) if x is new_a)
            except StopIteration:
                return None
            return post[j + 1] if j + 1 < len(post) else None
        return None

    def draw_action(self, rng, g, leaving, entering):
        cfg = self.cfg
        if rng.random() > cfg['p_act']:
            return {'a': 'none'}
        a = rng.choice(cfg['acts'])
        if g.parent is not None and isinstance(g.parent.a, ast.arguments) and a in ('remove_next', 'remove_prev', 'replace_next', 'replace_prev'):
            # single parameters cannot be removed / replaced by node operations (refused by design): go through the
            # arguments node's slice interface instead
            a = {'remove_next': 'slice_del_next', 'remove_prev': 'slice_del_prev', 'replace_next': 'slice_put_next', 'replace_prev': 'slice_put_prev'}[a]
        act = {'a': a}
        if a == 'send_true' and not entering:
            return {'a': 'none'}  # on a leaving yield send(True) means 'walk again' (documented): not used
        if a in ('replace', 'replace_anc', 'replace_prev', 'replace_next', 'insert_before'):
            tgt = self.target(act, g, rng)
            if tgt is None:
                return {'a': 'none'}
            act['code'] = code_for(rng, tgt.a)
        elif a in ('remove_anc',):
            act['k'] = rng.choice([1, 1, 2, 3])
        elif a.startswith('slice_'):
            # siblings before / after the yielded node removed or replaced through the PARENT's slice interface
            # (parent.put_slice(None | code, i, j, field), for a def's parameters: the arguments node's own slice)
            act['n'] = rng.choice([1, 1, 2, 3])
            if self.sibling_span(act, g) is None:
                return {'a': 'none'}
            if a in ('slice_put_next', 'slice_put_prev'):
                par = g.parent
                if isinstance(par.a, ast.arguments):
                    act['code'] = {'form': 'src', 'cat': 'arguments', 'text': rng.choice(['nq', 'nq: int = 3', 'nq, nr=ns'])}
                else:
                    act['code'] = code_for(rng, g.a)
        if a == 'replace_anc':
            pass
        return act

    def target(self, act, g, rng=None):
        """Resolve the action's target relative to the yielded node."""
        a = act['a']
        if a in ('replace', 'remove'):
            return g if g is not self.root else None
        if a in ('replace_anc', 'remove_anc'):
            if 'k' not in act:
                act['k'] = rng.choice([1, 1, 2, 3]) if rng else 1
            cur = g
            for _ in range(act['k']):
                if cur is self.start or cur.parent is None:
                    break
                cur = cur.parent
            return cur if cur is not g and cur is not self.root else None
        par = g.parent
        pf = g.pfield
        if par is None or pf is None or pf.idx is None:
            return None
        lst = getattr(par.a, pf.name, None)
        if not isinstance(lst, list):
            return None
        if a in ('replace_prev', 'remove_prev'):
            j = pf.idx - 1
        elif a in ('replace_next', 'remove_next'):
            j = pf.idx + 1
        else:  # insert_before a sibling (previous, current or next)
            if 'rel' not in act:
                act['rel'] = rng.choice([-1, 0, 1]) if rng else 0
            j = pf.idx + act['rel']
        if not 0 <= j < len(lst) or not isinstance(lst[j], ast.AST):
            return None
        return lst[j].f

    def sibling_span(self, act, g):
        """(parent FST, field or None, start, stop) of the siblings a slice_* action addresses, or None."""
        par, pf = g.parent, g.pfield
        if par is None or pf is None or pf.idx is None or g is self.start:
            return None
        if isinstance(par.a, ast.arguments):
            pa = par.a  # the arguments node's own slice interface indexes the parameters in source order
            sibs = [*pa.posonlyargs, *pa.args, *([pa.vararg] if pa.vararg else []), *pa.kwonlyargs, *([pa.kwarg] if pa.kwarg else [])]
            field = None
        else:
            sibs = getattr(par.a, pf.name, None)
            field = pf.name
            if not isinstance(sibs, list) or any(not isinstance(x, ast.AST) for x in sibs):
                return None
        try:
            i = next(k for k, x in enumerate(sibs) if x is g.a)
        except StopIteration:
            return None
        n = act.get('n', 1)
        if act['a'].endswith('_next'):
            a, b = i + 1, min(len(sibs), i + 1 + n)
        else:
            a, b = max(0, i - n), i
        if a >= b:
            return None
        return par, field, a, b

    def perform(self, act, g, gen, leaving, entering):
        a = act['a']
        if a == 'none':
            return 'none'
        try:
            if a == 'send_false':
                gen.send(False)
                return 'ok'
            if a == 'send_true':
                if not entering:
                    return 'skipped'
                gen.send(True)
                return 'ok'
            if a.startswith('slice_'):
                span = self.sibling_span(act, g)
                if span is None:
                    return 'notarget'
                par, field, i, j = span
                code = None
                if 'code' in act:
                    code, _ = O.make_code(act['code'], self.root, g)
                par.put_slice(code, i, j, field)
                return 'ok'
            tgt = self.target(act, g)
            if tgt is None:
                return 'notarget'
            if a.startswith('remove'):
                tgt.remove()
                return 'ok'
            code, _ = O.make_code(act['code'], self.root, tgt)
            if a == 'insert_before':
                pf = tgt.pfield
                tgt.parent.put_slice(code, pf.idx, pf.idx, pf.name, one=True)
                return 'ok'
            tgt.replace(code)
            return 'ok'
        except O.Skip:
            return 'skipped'
        except Exception as e:
            if a in ('send_false', 'send_true'):
                self.fail('send_raises', O.exc_repr(e), len(self.schedule))
            if modifying_registry():
                modifying_registry().clear()
            return 'refused'


def engine_run(prop, seed, extra):
    return WalkRun(prop, seed=seed, extra=extra).run()


def engine_replay(case):
    return WalkRun(case['property'], case=case).run()


def minimise(case, fails):
    from .core import ddmin
    base = copy.deepcopy(case)
    if not fails(base):
        return case
    sched = base['schedule']
    idxs = [i for i, a in enumerate(sched) if a['a'] != 'none']

    def with_only(keep):
        ks = set(keep)
        return dict(base, schedule=[a if i in ks else {'a': 'none'} for i, a in enumerate(sched)])

    keep = ddmin(idxs, lambda ks: fails(with_only(ks)), 120)
    base = with_only(keep)
    # simplify codes
    for i in keep:
        a = base['schedule'][i]
        if 'code' in a and a['code'].get('form') != 'src':
            s2 = copy.deepcopy(base['schedule'])
            s2[i]['code']['form'] = 'src'
            if fails(dict(base, schedule=s2)):
                base = dict(base, schedule=s2)
    # trailing 'none's are implied
    s = base['schedule']
    while s and s[-1]['a'] == 'none':
        s = s[:-1]
    if fails(dict(base, schedule=s)):
        base = dict(base, schedule=s)
    return _shrink_prog(base, fails)


def _shrink_prog(case, fails):
    """Drop top-level statements while the violation persists."""
    try:
        tree = ast.parse(case['program'])
    except SyntaxError:
        return case
    lines = case['program'].split('\n')
    for st in reversed(tree.body):
        s = (st.decorator_list[0].lineno if getattr(st, 'decorator_list', None) else st.lineno) - 1
        e = st.end_lineno
        new = '\n'.join(lines[:s] + lines[e:])
        try:
            ast.parse(new)
        except SyntaxError:
            continue
        c = dict(case, program=new)
        if new.strip() and fails(c):
            case = c
            lines = new.split('\n')
    return case


def signature(case):
    v = case.get('violation') or {}
    cfg = case.get('config') or {}
    acts = sorted(set(a['a'] for a in case.get('schedule') or [] if a['a'] != 'none'))
    return {'kind': v.get('kind'), 'gen': cfg.get('kind'), 'on': cfg.get('on'), 'back': cfg.get('back'),
            'actions': '+'.join(acts)}
