"""Common core: seeding, batch runner on forked workers, evidence, replay files, delta debugging, known findings."""

import collections
import concurrent.futures
import faulthandler
import hashlib
import json
import multiprocessing
import os
import signal
import subprocess
import sys
import time
import traceback

VERIF = os.path.dirname(os.path.dirname(os.path.abspath(__file__)))
REPO = os.environ.get('PFST_REPO', '/repo')
REPLAYS = os.environ.get('PFST_VERIF_REPLAYS') or os.path.join(VERIF, 'replays')    # redirected by the self-test only
EVIDENCE = os.environ.get('PFST_VERIF_EVIDENCE') or os.path.join(VERIF, 'evidence')
KNOWN = os.path.join(VERIF, 'known_findings.json')

RUN_TIMEOUT_S = 60


class RunTimeout(BaseException):
    pass


def seed_for(verif_seed, prop, engine, i):
    h = hashlib.sha256(f'{verif_seed}/{prop}/{engine}/{i}'.encode()).digest()
    return int.from_bytes(h[:8], 'big')


def digest(obj):
    return hashlib.sha256(json.dumps(obj, sort_keys=True, default=repr, ensure_ascii=True).encode()).hexdigest()


# ----------------------------------------------------------------------------------------------------------------------
# result of one run (plain dict):
#   i, seed, digest, steps, ok_steps, stats (dict name->int), tuples (list of str), shapes (list of str),
#   violation: None | {kind, step, detail}, case: None | full case record (only kept for violations and samples),
#   timeout: bool, error: None | traceback string (harness error)

def _alarm(signum, frame):
    raise RunTimeout()


def run_one(engine_fn, prop, verif_seed, engine_name, i, keep_case=False, extra=None):
    """Run index i.  engine_fn(prop, seed, extra) -> result dict."""
    seed = seed_for(verif_seed, prop, engine_name, i)
    old = signal.signal(signal.SIGALRM, _alarm)
    signal.alarm(RUN_TIMEOUT_S)
    try:
        res = engine_fn(prop, seed, extra or {})
    except RunTimeout:
        res = {'timeout': True, 'violation': None, 'steps': 0, 'ok_steps': 0, 'stats': {}, 'digest': 'timeout',
               'case': None}
    except Exception:
        res = {'error': traceback.format_exc(), 'violation': None, 'steps': 0, 'ok_steps': 0, 'stats': {},
               'digest': 'error', 'case': None}
    finally:
        signal.alarm(0)
        signal.signal(signal.SIGALRM, old)
    res['i'] = i
    res['seed'] = seed
    if not keep_case and not res.get('violation') and not res.get('timeout'):
        res['case'] = None
    return res


def _chunk_worker(args):
    engine_mod, engine_fn_name, prop, verif_seed, engine_name, idxs, keep, extra = args
    import importlib
    mod = importlib.import_module(engine_mod)
    fn = getattr(mod, engine_fn_name)
    faulthandler.enable()
    out = []
    for i in idxs:
        out.append(run_one(fn, prop, verif_seed, engine_name, i, keep_case=(i in keep), extra=extra))
    return out


def run_batch(engine_mod, engine_fn_name, prop, verif_seed, engine_name, n_runs, workers=None, wall_cap_s=None,
              sample_idx=(0, 1, 2), extra=None, stop_on_violations=25, counts=None):
    """Run indices 0..n_runs-1 on forked workers.  Returns list of results sorted by i (possibly fewer than n_runs if the
    wall cap was hit: then 'truncated' is reported by the caller)."""
    workers = workers or min(16, os.cpu_count() or 1)
    chunk = max(1, min(50, n_runs // (workers * 4) or 1))
    chunks = [list(range(s, min(n_runs, s + chunk))) for s in range(0, n_runs, chunk)]
    keep = set(sample_idx)
    results = []
    t0 = time.time()
    ctx = multiprocessing.get_context('fork')
    truncated = False
    nviol = 0
    with concurrent.futures.ProcessPoolExecutor(max_workers=workers, mp_context=ctx) as ex:
        pending = {}
        it = iter(chunks)

        def submit_next():
            try:
                c = next(it)
            except StopIteration:
                return False
            fut = ex.submit(_chunk_worker, (engine_mod, engine_fn_name, prop, verif_seed, engine_name, c, keep, extra))
            pending[fut] = c
            return True

        for _ in range(workers * 2):
            if not submit_next():
                break
        while pending:
            done, _ = concurrent.futures.wait(list(pending), timeout=RUN_TIMEOUT_S * 3,
                                              return_when=concurrent.futures.FIRST_COMPLETED)
            if not done:
                raise HarnessError('worker pool made no progress for %d s' % (RUN_TIMEOUT_S * 3))
            for fut in done:
                pending.pop(fut)
                rs = fut.result()  # raises BrokenProcessPool -> harness error
                results.extend(rs)
                nviol += sum(1 for r in rs if r.get('violation') and (counts is None or counts(r)))
                stop = (wall_cap_s is not None and time.time() - t0 > wall_cap_s) or nviol >= stop_on_violations
                if stop:
                    truncated = True
                else:
                    submit_next()
    results.sort(key=lambda r: r['i'])
    return results, truncated


class HarnessError(Exception):
    pass


# ----------------------------------------------------------------------------------------------------------------------
# delta debugging over a list

def ddmin(items, test, max_tests=400):
    """Classic ddmin: smallest sublist (1-minimal up to the budget) for which test(sublist) is True.
    test(items) must be True initially."""
    n = 2
    tests = [0]

    def t(x):
        tests[0] += 1
        return test(x)

    while len(items) >= 2 and tests[0] < max_tests:
        size = len(items)
        chunk = max(1, size // n)
        subsets = [items[i:i + chunk] for i in range(0, size, chunk)]
        reduced = False
        for s in subsets:
            if tests[0] >= max_tests:
                break
            if len(s) < size and t(s):
                items = s
                n = 2
                reduced = True
                break
        if not reduced:
            for k in range(len(subsets)):
                if tests[0] >= max_tests:
                    break
                comp = [x for j, s in enumerate(subsets) if j != k for x in s]
                if comp and len(comp) < size and t(comp):
                    items = comp
                    n = max(n - 1, 2)
                    reduced = True
                    break
        if not reduced:
            if n >= size:
                break
            n = min(size, n * 2)
    if len(items) == 1 and tests[0] < max_tests:
        if t([]):
            items = []
    return items


# ----------------------------------------------------------------------------------------------------------------------
# replay files

def repo_rev():
    try:
        rev = subprocess.run(['git', '-C', REPO, 'rev-parse', 'HEAD'], capture_output=True, text=True, timeout=20).stdout.strip()
        dirty = bool(subprocess.run(['git', '-C', REPO, 'status', '--porcelain', '--untracked-files=no'], capture_output=True, text=True, timeout=20).stdout.strip())
        return rev, dirty
    except Exception:
        return 'unknown', False


def write_replay(case, tag=''):
    os.makedirs(REPLAYS, exist_ok=True)
    rev, dirty = repo_rev()
    case = dict(case, repo_rev=rev, repo_dirty=dirty)
    name = f"{case['property']}-{case.get('verif_seed', 0)}-{case.get('index', 'x')}{tag}.json"
    path = os.path.join(REPLAYS, name)
    with open(path, 'w') as f:
        json.dump(case, f, indent=1, ensure_ascii=True, default=repr)
    return path


def load_replay(path):
    with open(path) as f:
        return json.load(f)


def replay_in_fresh_interpreter(prop, path, timeout=180):
    """Re-execute a replay file in a fresh interpreter.  Returns (reproduced: bool, output)."""
    env = dict(os.environ, PYTHONHASHSEED='0', PYTHONDONTWRITEBYTECODE='1', PFST_VERIF_CHILD='1')
    p = subprocess.run([sys.executable, os.path.join(VERIF, 'check.py'), prop, '--replay', path], capture_output=True,
                       text=True, timeout=timeout, env=env, cwd=VERIF)
    return p.returncode == 1 and 'VIOLATION property=' in p.stdout, p.stdout + p.stderr


# ----------------------------------------------------------------------------------------------------------------------
# known findings

def load_known():
    try:
        with open(KNOWN) as f:
            return json.load(f)['findings']
    except FileNotFoundError:
        return []


def match_known(prop, sig, known=None):
    """Return the open known finding whose signature is a subset of `sig`, or None."""
    for k in (known if known is not None else load_known()):
        if k.get('property') != prop or k.get('status') != 'open':
            continue
        ks = k.get('signature') or {}
        if ks and all((sig.get(a) in b) if isinstance(b, list) else (sig.get(a) == b) for a, b in ks.items()):
            return k
    return None


# ----------------------------------------------------------------------------------------------------------------------
# evidence

def write_evidence(prop, tier, verif_seed, level, coverage, wall_s, violations, assumptions):
    os.makedirs(EVIDENCE, exist_ok=True)
    ev = {
        'property_id': prop, 'tier': tier, 'seed': int(verif_seed), 'level': level, 'coverage': coverage,
        'assumptions': assumptions, 'wall_s': round(wall_s, 2), 'violations': int(violations),
    }
    path = os.path.join(EVIDENCE, f'{prop}.json')
    tmp = path + '.tmp'
    with open(tmp, 'w') as f:
        json.dump(ev, f, indent=1, ensure_ascii=True, default=repr)
    os.replace(tmp, path)
    return path


def merge_stats(results):
    tot = collections.Counter()
    for r in results:
        for k, v in (r.get('stats') or {}).items():
            tot[k] += v
    return dict(sorted(tot.items()))
