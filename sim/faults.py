"""Fault generators for C12 (invalid structured-edit requests) - descriptors only, applied by ops.apply_edit."""

import ast

from . import ops as O

FAULT_KINDS = ['F1', 'F2', 'F3', 'F4', 'F5', 'F6', 'F7', 'F8', 'F9', 'F10', 'F11', 'F12']

BAD_SRC = ['a +', 'def', '(x', 'x)', '1 1', 'if', 'x y', ']', 'x = ', 'lambda', '*', 'a.', '"abc', "'''x", 'f(', '{a: }',
           'class', 'a if b', 'not', 'x[', '@', ':', ',', 'a b c', '\\', '0x', '1__0', 'é é', 'for x in', 'import']
WRONG_CAT = ['pass', 'x = 1', 'return', 'a:b', 'import x', 'def f(): pass', 'x: int', 'except: pass', 'case 1: pass',
             'for x in y', 'x as y', '**x', 'x=1', 'del x', 'a: int = 1', 'if x: pass', '@d', '1 | *x', 'global x',
             'x, /', '*, x', 'and', '+', 'not in', 'T: int', '*Ts', '**P']
BAD_OPTS = [{'foo': 1}, {'pars': 3}, {'trivia': 'bad'}, {'raw': 'x'}, {'norm': 7}, {'pep8space': 2}, {'docstr': 'x'},
            {'set_norm': True}, {'op_side': 'up'}, {'args_as': 'zz'}, {'coerce': 1}, {'elif_': None}, {'trivia': (1, 2, 3)},
            {'pars_walrus': 'auto'}, {'promote': 3}, {'ins_ln': 'x'}, {'trivia': ('line', 'line')}, {'Pars': True}]


def _base_edit(rng, tree, cfg, kinds=('replace', 'put', 'put_slice', 'insert', 'append')):
    w = {k: 1 for k in kinds}
    c = dict(cfg, weights=w, p_same_cat=1.0)
    for _ in range(8):
        op = O.gen_edit(rng, tree, c)
        if op is not None:
            return op
    return None


def gen_fault(rng, tree, cfg, kind=None):
    kind = kind or rng.choice(cfg.get('fault_kinds') or FAULT_KINDS)
    nodes = O.all_nodes(tree)
    op = None
    if kind == 'F1':
        op = _base_edit(rng, tree, cfg)
        if op and 'code' in op:
            op['code'] = {'form': rng.choice(['src', 'src', 'lines']), 'cat': 'expr', 'text': rng.choice(BAD_SRC)}
    elif kind == 'F2':
        op = _base_edit(rng, tree, cfg)
        if op and 'code' in op:
            op['code'] = {'form': rng.choice(['src', 'src', 'fst']), 'cat': 'x', 'mode': None, 'text': rng.choice(WRONG_CAT)}
    elif kind == 'F3':
        op = gen_ordering_fault(rng, tree, nodes)
    elif kind == 'F4':
        op = _base_edit(rng, tree, cfg, ('put', 'put_slice', 'insert'))
        if op:
            r = rng.random()
            if r < 0.3:
                op['field'] = rng.choice(['nofield', 'bodyy', 'elts_', 'ctx', 'lineno', '_none', '__class__'])
            elif r < 0.6 and 'idx' in op:
                op['idx'] = rng.choice([99, -99, 1000])
                if op['k'] == 'insert':
                    op['k'] = 'put'
                    op.pop('one', None)
            elif 'start' in op:
                op['start'], op['stop'] = rng.choice([(3, 1), (2, 0), ('end', 0), (5, 2)])
            else:
                op['idx'] = rng.choice([99, -99])
                op.pop('stop', None)
    elif kind == 'F5':
        op = _base_edit(rng, tree, cfg, ('replace', 'put', 'put_slice', 'insert', 'append', 'remove', 'cut'))
        if op:
            op['opts'] = O.enc_opts(rng.choice(BAD_OPTS))
        if rng.random() < 0.35:
            # statement-level edits do preparatory rewrites of the target (one-line block split, elif -> else/if) before
            # they format: an option value that is only refused late must not leave those behind
            conts = [((), tree)] + [(t[0], t[1]) for t in nodes]
            c = [(p_, n_, f_) for p_, n_ in conts for f_ in ('body', 'orelse', 'finalbody')
                 if isinstance(getattr(n_, f_, None), list) and getattr(n_, f_) and isinstance(getattr(n_, f_)[0], ast.stmt)]
            if c:
                p_, n_, f_ = rng.choice(c)
                n = len(getattr(n_, f_))
                i = rng.randint(0, n)
                op = {'k': 'put_slice', 'path': [list(x) for x in p_], 'field': f_, 'start': i, 'stop': rng.choice([i, min(n, i + 1)]), 'one': False,
                      'code': O.gen_code(rng, 'stmt', 1, ('src', 'src', 'fst'), cfg.get('uniq')),
                      'opts': O.enc_opts(rng.choice([{'pep8space': 2}, {'pep8space': 3}, {'pep8space': -1}, {'trivia': 'bad'}, {'docstr': 'x'},
                                                     {'elif_': None}, {'pep8space': 'x'}, {'trivia': (1, 2, 3)}]))}
    elif kind == 'F6':
        op = _base_edit(rng, tree, cfg)
        if op and 'code' in op and op['code'].get('form') != 'none':
            op['code'] = dict(op['code'], form='consumed')
    elif kind == 'F7':
        op = _base_edit(rng, tree, cfg)
        if op and 'code' in op:
            op['code'] = {'form': 'nonroot', 'text': rng.choice(['[a, b]', 'f(x, y)', 'if x:\n    y\n    z', 'a + b']),
                          'cat': 'expr'}
    elif kind == 'F8':
        if nodes:
            path, node, parent, field, idx = rng.choice(nodes)
            op = {'k': rng.choice(['replace', 'put']), 'path': [list(p) for p in path], 'opts': {},
                  'code': {'form': rng.choice(['self_root', 'self_root', 'self_ancestor']), 'text': ''}}
            if op['k'] == 'put':
                fields = [f for f in node._fields if isinstance(getattr(node, f, None), (ast.AST, list))]
                if not fields:
                    op['k'] = 'replace'
                else:
                    op['field'] = f = rng.choice(fields)
                    if isinstance(getattr(node, f), list):
                        op['idx'] = 0 if getattr(node, f) else 'end'
    elif kind == 'F9':
        # delete everything from a field that may not be empty (norm=True is the thread default)
        c = []
        for path, node, parent, field, idx in [((), tree, None, None, None)] + nodes:
            for f in ('targets', 'names', 'items', 'values', 'patterns', 'body', 'cases', 'handlers', 'comparators', 'generators', '_all', 'elts'):
                if f in ('values',) and not isinstance(node, ast.BoolOp):
                    continue
                if f == 'patterns' and not isinstance(node, ast.MatchOr):
                    continue
                if f == '_all' and not isinstance(node, ast.Compare):
                    continue
                if f == 'elts' and not (isinstance(node, ast.Set)):
                    continue
                if f == 'body' and isinstance(node, (ast.Module, ast.Lambda, ast.IfExp)):
                    continue
                if f == '_all' or isinstance(getattr(node, f, None), list):
                    c.append((path, f))
        if c:
            path, f = rng.choice(c)
            k = rng.choice(['put_slice', 'cut_slice', 'attr_del', 'view_delslice'])
            op = {'k': k, 'path': [list(p) for p in path], 'field': f, 'start': 0, 'stop': 'end', 'opts': {}}
            if k == 'put_slice':
                op['code'] = {'form': 'none'}
            if k == 'view_delslice':
                op['start'] = op['stop'] = None
                op.pop('opts')
            if k == 'attr_del':
                op.pop('opts')
    elif kind == 'F10':
        c = [t for t in nodes if isinstance(t[1], ast.Compare)]
        if c:
            path, node, _, _, _ = rng.choice(c)
            n = len(node.comparators) + 1
            op = {'k': rng.choice(['insert', 'put_slice']), 'path': [list(p) for p in path], 'field': rng.choice(['_all', None]),
                  'opts': {}, 'code': {'form': 'src', 'cat': 'expr', 'text': rng.choice(['x', 'f()', 'x + y'])}}
            if op['k'] == 'insert':
                op['idx'] = rng.randrange(n + 1)
                op['one'] = True
            else:
                op['start'] = op['stop'] = rng.randrange(n + 1)
                op['one'] = rng.choice([True, False])
    elif kind == 'F11':
        if len(nodes) >= 2:
            path, node, parent, field, idx = rng.choice(nodes)
            path2 = rng.choice(nodes)[0]
            op = {'k': 'replace', 'path': [list(p) for p in path], 'opts': {'to': ['__path__', [list(p) for p in path2]]},
                  'code': O.gen_code(rng, O.node_cat(node, parent, field), 1, ('src',))}
    elif kind == 'F12':
        # wrong python type as code / index
        op = _base_edit(rng, tree, cfg)
        if op and 'code' in op:
            op['code'] = {'form': 'value', 'cat': 'x', 'value': rng.choice([123, 1.5, True, ['a', 1], {'a': 1}]), 'text': ''}
    if op is None:
        return None
    op['fault'] = kind
    return op


def gen_ordering_fault(rng, tree, nodes):
    c = []
    for path, node, parent, field, idx in nodes:
        if isinstance(node, ast.Call) and node.args:
            c.append((path, '_args', 'zz=1', 'keyword', 'prepend'))
            c.append((path, '_args', '**zz', 'keyword', 'prepend'))
            c.append((path, '_args', 'zz=1', 'keyword', 'insert0'))
        if isinstance(node, ast.ClassDef) and node.bases:
            c.append((path, '_bases', 'zz=1', 'keyword', 'prepend'))
        if isinstance(node, ast.Call) and node.keywords:
            c.append((path, 'args', 'x', 'expr', 'append'))
            c.append((path, 'args', '*x', 'expr', 'append'))
            if any(k.arg is None for k in node.keywords):
                c.append((path, 'args', 'x', 'expr', 'append'))
        if isinstance(node, ast.ClassDef) and node.keywords:
            c.append((path, 'bases', 'x', 'expr', 'append'))
        if isinstance(node, ast.arguments) and not isinstance(parent, ast.Lambda):
            if node.defaults and (node.args or node.posonlyargs):
                c.append((path, 'args', 'zz', 'arg', 'append'))
            if node.vararg:
                c.append((path, '_all', '*zz', 'arg', 'append'))
            if node.kwarg:
                c.append((path, '_all', 'zz', 'arg', 'append'))
                c.append((path, '_all', '**zz', 'arg', 'append'))
            if node.args or node.kwonlyargs:
                c.append((path, '_all', 'zz, /', 'arguments', 'extend'))
        if isinstance(node, ast.MatchMapping) and node.rest:
            c.append((path, '_all', '"k": zz', 'pattern', 'append'))
        if isinstance(node, ast.MatchMapping) and (node.keys or node.rest):
            # a slice that carries its own **rest, put anywhere but at the end
            c.append((path, '_all', '{3: zz, **zq}', 'pattern', 'insert0'))
            c.append((path, '_all', '{3: zz, **zq}', 'pattern', 'replace01'))
        if isinstance(node, ast.arguments) and not isinstance(parent, ast.Lambda) and (node.args or node.kwonlyargs or node.vararg):
            c.append((path, '_all', '**zz', 'arguments', 'insert0'))
            c.append((path, '_all', '*zz, zy', 'arguments', 'insert0'))
        if isinstance(node, ast.ImportFrom):
            c.append((path, 'names', '*', 'alias_from', 'append'))
            if any(a.name == '*' for a in node.names):
                c.append((path, 'names', 'zz', 'alias_from', 'append'))
        if isinstance(node, ast.MatchClass) and node.kwd_patterns:
            c.append((path, 'patterns', 'zz', 'pattern', 'append'))
        if isinstance(node, (ast.MatchSequence)) and any(isinstance(p, ast.MatchStar) for p in node.patterns):
            c.append((path, 'patterns', '*zz', 'pattern', 'append'))
        if isinstance(node, ast.Dict):
            pass
        if isinstance(node, ast.Try) and node.handlers and any(h.type is None for h in node.handlers):
            c.append((path, 'handlers', 'except zz: pass', 'handler', 'append'))
        if isinstance(node, ast.Try) and node.handlers:
            c.append((path, 'handlers', 'except* zz: pass' if not _is_star(node) else 'except zz: pass', 'handler', 'append'))
        if isinstance(node, ast.Match) and any(_irrefutable(k) for k in node.cases[:-1]):
            pass
    if not c:
        return None
    path, field, text, cat, k = rng.choice(c)
    op = {'k': k, 'path': [list(p) for p in path], 'field': field, 'opts': {},
          'code': {'form': rng.choice(['src', 'src', 'fst']), 'cat': cat, 'text': text}}
    if k == 'insert0':
        op.update(k=rng.choice(['insert', 'put_slice']), idx=0, start=0, stop=0, one=rng.choice([True, False]))
    if k == 'replace01':
        op.update(k='put_slice', start=0, stop=1, one=False)
    return op


def _is_star(node):
    return node.__class__.__name__ == 'TryStar'


def _irrefutable(case):
    p = case.pattern
    return isinstance(p, ast.MatchAs) and p.pattern is None and case.guard is None
