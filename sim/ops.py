"""Operation descriptors: generation (from a seeded PRNG, against the current pure AST) and application (real pfst calls).

Descriptors are JSON-serialisable concrete data so that a recorded history can be replayed and shrunk without a PRNG."""

import ast
import json
import re

from . import corpus
from .model import iter_paths, resolve

# ----------------------------------------------------------------------------------------------------------------------
# categories

CATS = ['expr', 'stmt', 'arg', 'arguments', 'keyword', 'alias_import', 'alias_from', 'withitem', 'pattern', 'handler',
        'match_case', 'comprehension', 'type_param', 'boolop', 'operator', 'unaryop', 'cmpop', 'identifier']

POOLS = {
    'expr': corpus.EXPRS, 'stmt': corpus.STMTS, 'arg': corpus.ARGS, 'arguments': corpus.ARGUMENTS,
    'keyword': corpus.KEYWORDS, 'alias_import': corpus.ALIASES_IMPORT, 'alias_from': corpus.ALIASES_FROM,
    'withitem': corpus.WITHITEMS, 'pattern': corpus.PATTERNS, 'handler': corpus.HANDLERS,
    'match_case': corpus.MATCH_CASES, 'comprehension': corpus.COMPREHENSIONS, 'type_param': corpus.TYPE_PARAMS,
    'boolop': corpus.BOOLOPS, 'operator': corpus.OPERATORS, 'unaryop': corpus.UNARYOPS, 'cmpop': corpus.CMPOPS,
    'identifier': corpus.IDENTIFIERS,
}

FST_MODES = {
    'expr': 'expr', 'stmt': 'stmts', 'arg': 'arg', 'arguments': 'arguments', 'keyword': 'keyword',
    'alias_import': 'Import_name', 'alias_from': 'ImportFrom_name', 'withitem': 'withitem', 'pattern': 'pattern',
    'handler': 'ExceptHandler', 'match_case': 'match_case', 'comprehension': 'comprehension',
    'type_param': 'type_param', 'boolop': 'boolop', 'operator': 'operator', 'unaryop': 'unaryop', 'cmpop': 'cmpop',
}

SEPS = {
    'expr': ', ', 'stmt': '\n', 'arg': ', ', 'keyword': ', ', 'alias_import': ', ', 'alias_from': ', ',
    'withitem': ', ', 'pattern': ', ', 'handler': '\n', 'match_case': '\n', 'comprehension': ' ', 'type_param': ', ',
}


def _indent(text, pad):
    return '\n'.join(pad + ln if ln else ln for ln in text.split('\n'))


def harness_ast(cat, text):
    """Pure AST for `text` in category `cat`, parsed through a synthetic wrapper (never through pfst).  None if the
    wrapper cannot express it."""
    try:
        if cat == 'expr':
            try:
                return ast.parse('(' + text + '\n)', mode='eval').body
            except SyntaxError:
                return ast.parse('[' + text + '\n]').body[0].value.elts[0]
        if cat == 'stmt':
            m = ast.parse(text)
            return m.body[0] if len(m.body) == 1 else m
        if cat == 'arg':
            return ast.parse(f'def f({text}\n): pass').body[0].args.args[0]
        if cat == 'arguments':
            return ast.parse(f'def f({text}\n): pass').body[0].args
        if cat == 'keyword':
            return ast.parse(f'f({text}\n)').body[0].value.keywords[0]
        if cat == 'alias_import':
            return ast.parse(f'import {text}').body[0].names[0]
        if cat == 'alias_from':
            return ast.parse(f'from m import {text}').body[0].names[0]
        if cat == 'withitem':
            return ast.parse(f'with {text}: pass').body[0].items[0]
        if cat == 'pattern':
            return ast.parse(f'match x:\n case ({text}\n): pass').body[0].cases[0].pattern
        if cat == 'handler':
            return ast.parse('try: pass\n' + text).body[0].handlers[0]
        if cat == 'match_case':
            return ast.parse('match x:\n' + _indent(text, ' ')).body[0].cases[0]
        if cat == 'comprehension':
            return ast.parse(f'[_ {text}]').body[0].value.generators[0]
        if cat == 'type_param':
            return ast.parse(f'type X[{text}] = y').body[0].type_params[0]
        if cat == 'boolop':
            return ast.parse(f'a {text} b').body[0].value.op
        if cat == 'operator':
            return ast.parse(f'a {text} b').body[0].value.op
        if cat == 'unaryop':
            return ast.parse(f'{text} a').body[0].value.op
        if cat == 'cmpop':
            return ast.parse(f'a {text} b').body[0].value.ops[0]
    except (SyntaxError, IndexError, AttributeError, ValueError):
        return None
    return None


def make_code(code, root=None, target=None):
    """Build the actual `code` argument from a descriptor.  Returns (obj, form_actually_used)."""
    import fst
    form = code['form']
    if form == 'none':
        return None, 'none'
    text = code['text']
    cat = code.get('cat', 'expr')
    if form == 'consumed':  # F6: an FST that was already put somewhere else
        c, used = make_code(dict(code, form='fst'))
        if used != 'fst':
            raise Skip('consumed: not an fst')
        scratch = fst.FST('[zz]\nzz\n', 'exec')
        try:
            scratch.body[0].value.elts[0].replace(c)
        except Exception:
            try:
                scratch.body[1].replace(c)
            except Exception:
                pass
        return c, 'consumed'
    if form == 'nonroot':  # F7: a child node of another tree
        t = fst.FST(text, 'exec')
        kids = [n for n in t.walk(all=True) if n is not t and n.a.__class__.__name__ not in ('Load', 'Store', 'Del')]
        return kids[len(kids) // 2], 'nonroot'
    if form == 'self_root':  # F8
        return root, 'self_root'
    if form == 'self_ancestor':
        return (target.parent or root) if target is not None else root, 'self_ancestor'
    if form == 'lines':
        return text.split('\n'), 'lines'
    if form == 'ast' and cat == 'identifier':
        return ast.Name(id=text, ctx=ast.Load()), 'ast'   # hand-built: keeps the spelling as given (no NFKC normalisation)
    if form == 'fst' and cat == 'identifier':
        try:
            return fst.FST(text, 'expr'), 'fst'
        except Exception:
            return text, 'src'
    if form == 'ast':
        a = harness_ast(cat, text)
        if a is not None:
            return a, 'ast'
        return text, 'src'
    if form == 'fst':
        mode = code.get('mode') or FST_MODES.get(cat)
        try:
            return (fst.FST(text, mode) if mode else fst.FST(text)), 'fst'
        except Exception:
            try:
                return fst.FST(text), 'fst'
            except Exception:
                return text, 'src'
    if form == 'value':
        return code['value'], 'value'
    return text, 'src'


# ----------------------------------------------------------------------------------------------------------------------
# options encoding (JSON has no tuples)

def enc_opts(opts):
    return {k: (['__tuple__', *v] if isinstance(v, tuple) else v) for k, v in opts.items()}


def dec_opts(opts, root=None):
    out = {}
    for k, v in (opts or {}).items():
        if isinstance(v, list) and v and v[0] == '__tuple__':
            v = tuple(v[1:])
        elif isinstance(v, list) and v and v[0] == '__path__':
            v = resolve_f(root, v[1])
        elif isinstance(v, list):
            v = list(v)  # the library gets its own object, never the (recorded) descriptor's
        out[k] = v
    return out


TRIVIA_VALUES = [True, False, 'all', 'block', 'none', 'all+', 'block+1', 'none-', 'all-2', '+', '-1', (), ('all',),
                 ('none', 'none'), ('block', 'line'), ('all', 'all'), ('all+', 'block-'), (False, False), (True, True),
                 ('none', 'all+1'), ('block', 'none'), ('none', 'line')]


def gen_trivia(rng):
    """A trivia option value drawn from the whole documented grammar."""
    if rng.random() < 0.4:
        return rng.choice(TRIVIA_VALUES)

    def part(lead):
        r = rng.random()
        if r < 0.12:
            return rng.choice([True, False])
        if r < 0.18:
            return rng.randrange(0, 12)  # a line number
        base = rng.choice(['all', 'block', 'none', ''] if lead else ['all', 'block', 'none', 'line', ''])
        suf = rng.choice(['', '', '+', '-', '+1', '+2', '-1', '-2', '+3'])
        return (base + suf) or ('block' if lead else 'line')
    r = rng.random()
    if r < 0.25:
        return part(True)
    if r < 0.35:
        return (part(False),)
    return (part(True), part(False))


def gen_options(rng, rate=0.5, allow=None):
    """Options that never disable parenthesization or normalization (C01 precondition)."""
    o = {}
    if rng.random() > rate:
        return o
    table = {
        'trivia': TRIVIA_VALUES,
        'pep8space': [True, False, 1],
        'elif_': [True, False],
        'docstr': [True, False, 'strict'],
        'pars': [True, 'auto'],
        'pars_walrus': [True, False, None],
        'pars_arglike': [True, None],
        'norm': [True, 'star', 'call'],
        'norm_self': [None, True],
        'norm_get': [None, True, False],
        'set_norm': ['star', 'call'],
        'op_side': ['left', 'right'],
        'coerce': [True, False],
        'raw': [False],
    }
    keys = sorted(table) if allow is None else sorted(allow)
    for k in keys:
        if rng.random() < 0.18:
            o[k] = gen_trivia(rng) if k == 'trivia' else rng.choice(table[k])
    return o


# ----------------------------------------------------------------------------------------------------------------------
# field categories

_EXPR_LIST_FIELDS = {'decorator_list', 'bases', 'elts', 'values', 'keys', 'comparators', 'targets', 'defaults',
                     'kw_defaults', 'ifs'}
_STMT_FIELDS = {'body', 'orelse', 'finalbody'}
IDENT_FIELDS = {'name', 'id', 'attr', 'arg', 'asname', 'module', 'rest'}


def field_cat(node, field):
    """Category of the element(s) in `node.field`."""
    cls = node.__class__
    if field in _STMT_FIELDS:
        if cls in (ast.Lambda, ast.IfExp, ast.Expression):
            return 'expr'
        return 'stmt'
    if field == 'handlers':
        return 'handler'
    if field == 'cases':
        return 'match_case'
    if field == 'items':
        return 'withitem'
    if field == 'names':
        return {'Import': 'alias_import', 'ImportFrom': 'alias_from'}.get(cls.__name__, 'identifier')
    if field == 'generators':
        return 'comprehension'
    if field == 'keywords':
        return 'keyword'
    if field == 'args':
        if cls is ast.arguments:
            return 'arg'
        if cls in (ast.FunctionDef, ast.AsyncFunctionDef, ast.Lambda):
            return 'arguments'
        return 'expr'
    if field in ('posonlyargs', 'kwonlyargs', 'vararg', 'kwarg'):
        return 'arg'
    if field == 'ops':
        return 'cmpop'
    if field == 'op':
        return {'BoolOp': 'boolop', 'UnaryOp': 'unaryop'}.get(cls.__name__, 'operator')
    if field in ('patterns', 'kwd_patterns', 'pattern'):
        return 'pattern'
    if field == 'type_params':
        return 'type_param'
    if field in IDENT_FIELDS or field == 'kwd_attrs':
        if field == 'name' and cls in (ast.MatchAs, ast.MatchStar):
            return 'identifier'
        return 'identifier'
    if field == 'ctx':
        return 'ctx'
    if field == 'value' and cls in (ast.Constant, ast.MatchSingleton):
        return 'constant'
    if field in ('kind', 'type_comment', 'conversion', 'is_async', 'simple', 'level', 'lineno', 'tag', 'str',
                 'type_ignores'):
        return 'primitive'
    return 'expr'


def node_cat(node, parent=None, field=None):
    """Category of an existing node."""
    if isinstance(node, ast.stmt):
        return 'stmt'
    if isinstance(node, ast.expr):
        return 'expr'
    if isinstance(node, ast.pattern):
        return 'pattern'
    if isinstance(node, ast.arg):
        return 'arg'
    if isinstance(node, ast.arguments):
        return 'arguments'
    if isinstance(node, ast.keyword):
        return 'keyword'
    if isinstance(node, ast.alias):
        return 'alias_from' if isinstance(parent, ast.ImportFrom) else 'alias_import'
    if isinstance(node, ast.withitem):
        return 'withitem'
    if isinstance(node, ast.ExceptHandler):
        return 'handler'
    if isinstance(node, ast.match_case):
        return 'match_case'
    if isinstance(node, ast.comprehension):
        return 'comprehension'
    if isinstance(node, ast.type_param):
        return 'type_param'
    if isinstance(node, ast.boolop):
        return 'boolop'
    if isinstance(node, ast.operator):
        return 'operator'
    if isinstance(node, ast.unaryop):
        return 'unaryop'
    if isinstance(node, ast.cmpop):
        return 'cmpop'
    if isinstance(node, ast.expr_context):
        return 'ctx'
    return 'expr'


# ----------------------------------------------------------------------------------------------------------------------
# code generation

def gen_code(rng, cat, n=1, forms=('src', 'src', 'ast', 'fst'), uniq=None):
    """Descriptor for new code of category `cat` with `n` elements (n > 1 only for slice puts)."""
    if cat in ('ctx', 'primitive'):
        cat = 'expr'
    if cat == 'constant':
        v = rng.choice([0, 1, -1, 1.5, 'str', b'b', None, True, False, ..., 2j, 'ä🎉'])
        if v is ... or isinstance(v, (bytes, complex)):
            return {'form': 'src', 'cat': 'expr', 'text': repr(v)}
        return {'form': 'value', 'cat': 'constant', 'value': v, 'text': repr(v)}
    pool = POOLS[cat]
    if cat == 'identifier':
        t = rng.choice(pool)
        if uniq is not None and t != '_':
            t = uniq(t, cat)
        # identifiers can be given as a Name node too (FST with its own source spelling, or a hand-built pure AST)
        return {'form': rng.choice(forms) if t.isidentifier() else 'src', 'cat': cat, 'text': t}
    parts = [rng.choice(pool) for _ in range(n)]
    if uniq is not None:
        parts = [uniq(p, cat) for p in parts]
    form = rng.choice(forms)
    if n == 1:
        text = parts[0]
    else:
        sep = SEPS.get(cat)
        if sep is None:
            text = parts[0]
        else:
            if cat == 'expr':
                parts = [p if _simple_elt(p) else '(' + p + ')' for p in parts]
            if cat in ('expr', 'pattern') and sep.strip() == ',' and rng.random() < 0.35:
                # "any layout of the code being put": elements on several lines with irregular indentation
                text = parts[0]
                for p in parts[1:]:
                    text += rng.choice([', ', ',\n', ',\n ', ',\n    ', ',\n        ', ' ,  ', ',\n' + ' ' * rng.randint(0, 12)]) + p
                if rng.random() < 0.2:
                    text += rng.choice([',', ',\n', ' ,'])
            else:
                text = sep.join(parts)
            form = rng.choice(('src', 'src', 'fst_all'))
    d = {'form': form, 'cat': cat, 'text': text}
    if form == 'fst_all':
        d['form'] = 'fst'
        d['mode'] = None
        d['cat'] = cat
        d['multi'] = True
    if n != 1:
        d['n'] = n
    return d


def _simple_elt(p):
    return not any(c in p for c in ',:=\n#') and not p.startswith(('yield', 'lambda', '*'))


# ----------------------------------------------------------------------------------------------------------------------
# edit generation (unvetted family: any node x any field x any code)

def list_fields(node):
    out = []
    for f in node._fields:
        v = getattr(node, f, None)
        if isinstance(v, list):
            out.append(f)
    return out


VIRTUAL_FIELDS = {
    ast.Dict: ['_all'], ast.MatchMapping: ['_all'], ast.Compare: ['_all'], ast.Call: ['_args'],
    ast.ClassDef: ['_bases', '_body'], ast.FunctionDef: ['_body'], ast.AsyncFunctionDef: ['_body'],
    ast.Module: ['_body'], ast.arguments: ['_all'], ast.MatchClass: ['_attrs'],
}

VIRTUAL_CAT = {'_args': 'expr', '_bases': 'expr', '_body': 'stmt'}


def gen_index(rng, n, wild=0.15):
    """An index for a list of length n: mostly valid, sometimes out of range / negative / 'end'."""
    r = rng.random()
    if r < wild:
        return rng.choice([-n - 2, -n - 1, n, n + 1, n + 2, 'end'])
    if n == 0:
        return 0
    if r < wild + 0.2:
        return rng.randrange(-n, 0)
    return rng.randrange(n)


def gen_bounds(rng, n, wild=0.15):
    cands = list(range(0, n + 1))
    a = rng.choice(cands)
    b = rng.choice(cands)
    if a > b and rng.random() < 0.9:
        a, b = b, a
    r = rng.random()
    if r < wild:
        a = rng.choice([a, -n - 2, -n - 1, n + 1, n + 2, 'end', a - n if n else 0])
    r = rng.random()
    if r < wild:
        b = rng.choice([b, -n - 2, n + 1, n + 2, 'end', 'end', b - n if n and b < n else 'end'])
    return a, b


EDIT_KINDS = ['replace', 'remove', 'put', 'put_slice', 'insert', 'append', 'extend', 'prepend', 'prextend', 'cut',
              'cut_slice', 'attr_set', 'attr_del', 'view_setitem', 'view_setslice', 'view_delitem', 'view_delslice',
              'view_method', 'put_docstr', 'put_line_comment']

DEFAULT_WEIGHTS = {'replace': 8, 'remove': 4, 'put': 5, 'put_slice': 6, 'insert': 3, 'append': 2, 'extend': 2,
                   'prepend': 1, 'prextend': 1, 'cut': 3, 'cut_slice': 3, 'attr_set': 3, 'attr_del': 2,
                   'view_setitem': 2, 'view_setslice': 2, 'view_delitem': 1, 'view_delslice': 1, 'view_method': 2,
                   'put_docstr': 1, 'put_line_comment': 1}


def all_nodes(tree):
    """[(path, node, parent, field, idx)] excluding ctx nodes."""
    return [t for t in iter_paths(tree) if not isinstance(t[1], ast.expr_context)]


def gen_edit(rng, tree, cfg):
    """Generate one edit descriptor (see _gen_edit).  Harness guard: an int put to ImportFrom.level becomes that many dots
    in the source; unique-token numbers such as 91203 would make a 90 kB line that only slows the harness's tokenizer."""
    op = _gen_edit(rng, tree, cfg)
    if op is not None and op.get('field') == 'level' and isinstance(op.get('code'), dict):
        t = op['code'].get('text')
        if isinstance(t, str) and t.strip().isdigit() and int(t) > 40:
            op['code'] = dict(op['code'], text=str(int(t) % 7))
    return op


def gen_edge_edit(rng, tree, cfg):
    """An edit that removes / replaces the FIRST or LAST element of a sequence whose neighbour element sits on another
    line: afterwards the container (and every position-less ancestor whose location is computed from it) starts or ends
    on a different line than before."""
    c = []
    for path, node, _, _, _ in [((), tree, None, None, None)] + all_nodes(tree):
        for f in list_fields(node):
            lst = getattr(node, f)
            if len(lst) >= 2 and all(hasattr(x, 'end_lineno') for x in (lst[0], lst[1], lst[-1], lst[-2])):
                if lst[0].end_lineno < lst[1].lineno:
                    c.append((path, f, 0, len(lst)))
                if lst[-2].end_lineno < lst[-1].lineno:
                    c.append((path, f, len(lst) - 1, len(lst)))
        if isinstance(node, ast.Compare) and node.left.end_lineno < node.comparators[0].lineno:
            c.append((path, '_all', 0, len(node.comparators) + 1))
    if not c:
        return None
    path, f, i, n = rng.choice(c)
    kind = rng.choice(['put_slice', 'put_slice', 'cut_slice', 'view_delitem', 'remove', 'cut', 'replace'])
    opts = enc_opts(gen_options(rng, cfg.get('opt_rate', 0.5), cfg.get('opt_allow')))
    if kind in ('remove', 'cut', 'replace') and f != '_all':
        op = {'k': kind, 'path': [list(p) for p in path] + [[f, i]], 'opts': opts}
        if kind == 'replace':
            node = getattr(resolve_node(tree, path), f)[i]
            op['code'] = gen_code(rng, node_cat(node, resolve_node(tree, path), f), 1, cfg.get('forms', ('src', 'src', 'ast', 'fst')), cfg.get('uniq'))
        return op
    op = {'k': 'put_slice' if kind in ('remove', 'cut', 'replace') else kind, 'path': [list(p) for p in path], 'field': f, 'opts': opts}
    if op['k'] == 'put_slice':
        op.update(start=i, stop=i + 1, code={'form': 'none'}, one=False)
    elif op['k'] == 'cut_slice':
        op.update(start=i, stop=i + 1)
    else:
        op['idx'] = i if rng.random() < 0.5 else i - n
        op.pop('opts')
    return op


def resolve_node(tree, path):
    node = tree
    for f, i in path:
        node = getattr(node, f)
        if i is not None:
            node = node[i]
    return node


def _gen_edit(rng, tree, cfg):
    """Generate one edit descriptor against the current pure AST `tree` (a Module)."""
    if cfg.get('p_edge') and rng.random() < cfg['p_edge']:
        op = gen_edge_edit(rng, tree, cfg)
        if op is not None:
            return op
    weights = cfg.get('weights', DEFAULT_WEIGHTS)
    kinds = sorted(weights)
    kind = rng.choices(kinds, [weights[k] for k in kinds])[0]
    nodes = all_nodes(tree)
    focus = cfg.get('focus_cls')
    fnodes = fconts = ffield = None
    if focus and rng.random() < 0.7:  # focus run: aim at nodes of the focus class (as target: the node or its children)
        fconts = [t for t in nodes if t[1].__class__.__name__ == focus] or None
        ffield = cfg.get('focus_field') if fconts and rng.random() < 0.75 else None
        if ffield and not ffield.startswith('_') and not isinstance(getattr(fconts[0][1], ffield, None), list):
            # single-valued focus field: only the one-element edit kinds apply
            sk = [k for k in ('replace', 'remove', 'cut', 'put', 'attr_set', 'attr_del') if weights.get(k)]
            if sk:
                kind = rng.choices(sk, [weights[k] for k in sk])[0]
        fnodes = [t for t in nodes if (t[2] is not None and t[2].__class__.__name__ == focus
                                       and (ffield is None or t[3] == ffield))
                  or (ffield is None and t[1].__class__.__name__ == focus)] or None
    p_same = cfg.get('p_same_cat', 0.85)
    opt_rate = cfg.get('opt_rate', 0.5)
    forms = cfg.get('forms', ('src', 'src', 'ast', 'fst'))
    uniq = cfg.get('uniq')
    opts = enc_opts(gen_options(rng, opt_rate, cfg.get('opt_allow')))

    def pick_cat(cat):
        return cat if rng.random() < p_same else rng.choice(CATS[:-1])

    if kind in ('replace', 'remove', 'cut'):
        if not nodes:
            return None
        path, node, parent, field, idx = rng.choice(fnodes or nodes)
        op = {'k': kind, 'path': [list(p) for p in path], 'opts': opts}
        if kind == 'replace':
            cat = pick_cat(node_cat(node, parent, field))
            if rng.random() < 0.08 and idx is not None:
                op['code'] = gen_code(rng, cat, rng.choice((0, 2, 3)) or 1, forms, uniq)
                op['one'] = rng.choice([False, None])
            else:
                op['code'] = gen_code(rng, cat, 1, forms, uniq)
        return op

    # container-based ops
    conts = [((), tree, None, None, None)] + nodes
    if kind in ('put', 'attr_set', 'attr_del'):
        path, node, _, _, _ = rng.choice(fconts or conts)
        fields = [f for f in node._fields if f != 'ctx' and f != 'type_ignores']
        if not fields:
            return None
        field = rng.choice(fields)
        if ffield in fields:
            field = ffield
        val = getattr(node, field, None)
        cat = pick_cat(field_cat(node, field))
        op = {'k': kind, 'path': [list(p) for p in path], 'field': field, 'opts': opts}
        if kind == 'attr_del':
            op.pop('opts')
            return op
        if isinstance(val, list):
            if kind == 'attr_set':
                n = rng.choice((0, 1, 2, 3))
                op['code'] = gen_code(rng, cat, n, forms, uniq) if n else {'form': 'none'}
                op.pop('opts')
                return op
            r = rng.random()
            if r < 0.6:
                op['idx'] = gen_index(rng, len(val))
                op['code'] = gen_code(rng, cat, 1, forms, uniq) if rng.random() < 0.85 else {'form': 'none'}
            else:
                op['idx'], op['stop'] = gen_bounds(rng, len(val))
                n = rng.choice((0, 1, 2, 3))
                op['code'] = gen_code(rng, cat, n, forms, uniq) if n else {'form': 'none'}
                op['one'] = rng.choice([True, False, False, None])
        else:
            op['code'] = gen_code(rng, cat, 1, forms, uniq) if rng.random() < 0.85 else {'form': 'none'}
            if kind == 'attr_set':
                op.pop('opts')
        if rng.random() < 0.15 and field == default_field(node):
            op['field'] = None
        return op

    # list-field ops
    lconts = []
    for path, node, _, _, _ in (fconts or conts):
        for f in list_fields(node):
            if f != 'type_ignores':
                lconts.append((path, node, f, False))
        for f in VIRTUAL_FIELDS.get(node.__class__, ()):
            lconts.append((path, node, f, True))
    if kind in ('put_docstr', 'put_line_comment'):
        if kind == 'put_docstr':
            c = [t for t in conts if isinstance(t[1], (ast.Module, ast.FunctionDef, ast.AsyncFunctionDef, ast.ClassDef))]
            if rng.random() < 0.1:
                c = conts
            path, node, _, _, _ = rng.choice(c)
            text = rng.choice(corpus.DOCSTR_TEXTS + [None])
            return {'k': kind, 'path': [list(p) for p in path], 'text': text,
                    'opts': enc_opts(gen_options(rng, 0.2))}
        c = [t for t in conts if isinstance(t[1], (ast.stmt, ast.ExceptHandler, ast.match_case))]
        if not c or rng.random() < 0.1:
            c = conts
        path, node, _, _, _ = rng.choice(c)
        text = rng.choice(corpus.COMMENT_TEXTS + [None])
        op = {'k': kind, 'path': [list(p) for p in path], 'text': text}
        if rng.random() < 0.3:
            op['field'] = rng.choice(['body', 'orelse', 'finalbody', None])
        return op
    if ffield and any(t[2] == ffield for t in lconts):
        lconts = [t for t in lconts if t[2] == ffield]
    if not lconts and fconts:
        for path, node, _, _, _ in conts:
            for f in list_fields(node):
                if f != 'type_ignores':
                    lconts.append((path, node, f, False))
    if not lconts:
        return None
    path, node, field, virtual = rng.choice(lconts)
    if virtual:
        n_cur = virtual_len(node, field)
        cat = pick_cat(VIRTUAL_CAT.get(field) or virtual_cat(node))
    else:
        n_cur = len(getattr(node, field))
        cat = pick_cat(field_cat(node, field))
    op = {'k': kind, 'path': [list(p) for p in path], 'field': field, 'opts': opts}
    if rng.random() < 0.15 and field == default_field(node):
        op['field'] = None
    if kind == 'put_slice':
        op['start'], op['stop'] = gen_bounds(rng, n_cur)
        n = rng.choice((0, 0, 1, 1, 2, 3))
        op['code'] = gen_code(rng, cat, n, forms, uniq) if n else {'form': 'none'}
        op['one'] = rng.choice([False, False, False, True, None])
    elif kind == 'cut_slice':
        op['start'], op['stop'] = gen_bounds(rng, n_cur)
    elif kind == 'insert':
        op['idx'] = gen_index(rng, n_cur + 1)
        one = rng.choice([True, True, False, None])
        op['one'] = one
        op['code'] = gen_code(rng, cat, 1 if one else rng.choice((1, 2)), forms, uniq)
    elif kind in ('append', 'prepend'):
        op['code'] = gen_code(rng, cat, 1, forms, uniq)
    elif kind in ('extend', 'prextend'):
        op['code'] = gen_code(rng, cat, rng.choice((1, 2, 3)), forms, uniq)
    elif kind == 'view_setitem':
        op['idx'] = gen_index(rng, n_cur)
        op['code'] = gen_code(rng, cat, 1, forms, uniq)
        op.pop('opts')
    elif kind == 'view_delitem':
        op['idx'] = gen_index(rng, n_cur)
        op.pop('opts')
    elif kind in ('view_setslice', 'view_delslice'):
        a, b = gen_bounds(rng, n_cur, 0.1)
        op['start'] = None if a == 'end' or rng.random() < 0.15 else a
        op['stop'] = None if b == 'end' or rng.random() < 0.15 else b
        if kind == 'view_setslice':
            n = rng.choice((1, 1, 2, 3))
            op['code'] = gen_code(rng, cat, n, forms, uniq)
        op.pop('opts')
    elif kind == 'view_method':
        # a method on a sub-view: view[a:b].<m>(...)
        a, b = gen_bounds(rng, n_cur, 0.0)
        op['start'], op['stop'] = a, b
        op['m'] = m = rng.choice(['cut', 'remove', 'replace', 'insert', 'append', 'extend', 'prepend', 'prextend'])
        if m == 'replace':
            n = rng.choice((1, 2))
            op['code'] = gen_code(rng, cat, n, forms, uniq)
            op['one'] = rng.choice([True, False])
        elif m == 'insert':
            op['code'] = gen_code(rng, cat, 1, forms, uniq)
            op['idx'] = gen_index(rng, max(0, (b if isinstance(b, int) else 0) - (a if isinstance(a, int) else 0)) + 1)
        elif m in ('append', 'prepend'):
            op['code'] = gen_code(rng, cat, 1, forms, uniq)
        elif m in ('extend', 'prextend'):
            op['code'] = gen_code(rng, cat, rng.choice((1, 2)), forms, uniq)
    return op


def virtual_len(node, field):
    if field == '_all':
        if isinstance(node, (ast.Dict, ast.MatchMapping)):
            return len(node.keys) + (1 if getattr(node, 'rest', None) else 0)
        if isinstance(node, ast.Compare):
            return len(node.comparators) + 1
        if isinstance(node, ast.arguments):
            return (len(node.posonlyargs) + len(node.args) + len(node.kwonlyargs) + bool(node.vararg) + bool(node.kwarg))
        if isinstance(node, ast.MatchClass):
            return len(node.patterns) + len(node.kwd_patterns)
    if field == '_attrs':
        return len(node.patterns) + len(node.kwd_patterns)
    if field == '_args':
        return len(node.args) + len(node.keywords)
    if field == '_bases':
        return len(node.bases) + len(node.keywords)
    if field == '_body':
        b = node.body
        has_doc = bool(b) and isinstance(b[0], ast.Expr) and isinstance(b[0].value, ast.Constant) and isinstance(b[0].value.value, str)
        return len(b) - has_doc
    return 0


def virtual_cat(node):
    if isinstance(node, ast.Compare):
        return 'expr'
    if isinstance(node, ast.arguments):
        return 'arg'
    if isinstance(node, (ast.MatchMapping, ast.MatchClass)):
        return 'pattern'
    return 'expr'


_DEFAULT_FIELDS = {'body': None}


def default_field(node):
    try:
        from fst.fst_misc import _DEFAULT_AST_FIELD
        return _DEFAULT_AST_FIELD.get(node.__class__)
    except Exception:
        return None


# ----------------------------------------------------------------------------------------------------------------------
# application

_hex = re.compile(r'0x[0-9a-fA-F]+')


def exc_repr(e):
    return f'{e.__class__.__name__}: {_hex.sub("0x?", str(e))[:160]}'


class Skip(Exception):
    """Op could not be addressed in the current tree (replay/shrink) - not an outcome of the library."""


def resolve_f(root, path):
    a = resolve(root.a, [tuple(p) for p in path])
    if a is None:
        raise Skip('path')
    f = getattr(a, 'f', None)
    if f is None:
        raise Skip('nof')
    return f


def _view(f, field):
    if field is None:
        field = default_field(f.a)
        if field is None:
            raise Skip('nodefault')
    v = getattr(f, field)
    return v


def apply_edit(root, op, held=None, opt_objs=None):
    """Execute one edit descriptor with real pfst calls.  Returns the call's return value; library exceptions
    propagate; `Skip` if the op cannot be addressed.  `opt_objs`: a caller-owned {(option, json): list object} table;
    list-valued options are then passed as the SAME object on every call that names the same value (a caller reusing
    a variable), so that the caller can see whether a call changed it."""
    k = op['k']
    f = resolve_f(root, op['path'])
    opts = dec_opts(op.get('opts'), root)
    if opt_objs is not None:
        for ok, ov in list(opts.items()):
            if isinstance(ov, list):
                opts[ok] = opt_objs.setdefault((ok, json.dumps(ov)), list(ov))  # never the descriptor's own list
    code = None
    if 'code' in op:
        code, _ = make_code(op['code'], root, f)
    if k == 'replace':
        if 'one' in op:
            return f.replace(code, one=op['one'], **opts)
        return f.replace(code, **opts)
    if k == 'remove':
        return f.remove(**opts)
    if k == 'cut':
        return f.cut(**opts)
    if k == 'put':
        kw = {}
        if 'one' in op:
            kw['one'] = op['one']
        if 'stop' in op:
            return f.put(code, op['idx'], op['stop'], op['field'], **kw, **opts)
        if 'idx' in op:
            return f.put(code, op['idx'], field=op['field'], **kw, **opts)
        return f.put(code, field=op['field'], **kw, **opts)
    if k == 'put_slice':
        return f.put_slice(code, op['start'], op['stop'], op['field'], one=op.get('one', False), **opts)
    if k == 'cut_slice':
        return f.get_slice(op['start'], op['stop'], op['field'], cut=True, **opts)
    if k == 'insert':
        return f.insert(code, op['idx'], op['field'], one=op.get('one', True), **opts)
    if k == 'append':
        return f.append(code, op['field'], **opts)
    if k == 'prepend':
        return f.prepend(code, op['field'], **opts)
    if k == 'extend':
        return f.extend(code, op['field'], **opts)
    if k == 'prextend':
        return f.prextend(code, op['field'], **opts)
    if k == 'attr_set':
        if op['field'] is None:
            raise Skip('nofield')
        setattr(f, op['field'], code)
        return None
    if k == 'attr_del':
        if op['field'] is None:
            raise Skip('nofield')
        delattr(f, op['field'])
        return None
    if k == 'view_setitem':
        v = _view(f, op['field'])
        if not hasattr(v, '__setitem__'):
            raise Skip('notview')
        idx = op['idx']
        if idx == 'end':
            raise Skip('end')
        v[idx] = code
        return None
    if k == 'view_delitem':
        v = _view(f, op['field'])
        if not hasattr(v, '__delitem__'):
            raise Skip('notview')
        idx = op['idx']
        if idx == 'end':
            raise Skip('end')
        del v[idx]
        return None
    if k == 'view_setslice':
        v = _view(f, op['field'])
        if not hasattr(v, '__setitem__'):
            raise Skip('notview')
        v[op['start']:op['stop']] = code
        return None
    if k == 'view_delslice':
        v = _view(f, op['field'])
        if not hasattr(v, '__delitem__'):
            raise Skip('notview')
        del v[op['start']:op['stop']]
        return None
    if k == 'view_method':
        v = _view(f, op['field'])
        if not hasattr(v, '__setitem__'):
            raise Skip('notview')
        a, b = op['start'], op['stop']
        sub = v[(None if a == 'end' else a):(None if b == 'end' else b)]
        m = op['m']
        if m == 'cut':
            return sub.cut(**opts)
        if m == 'remove':
            return sub.remove(**opts)
        if m == 'replace':
            return sub.replace(code, one=op.get('one', True), **opts)
        if m == 'insert':
            return sub.insert(code, op['idx'], **opts)
        if m == 'append':
            return sub.append(code, **opts)
        if m == 'prepend':
            return sub.prepend(code, **opts)
        if m == 'extend':
            return sub.extend(code, **opts)
        if m == 'prextend':
            return sub.prextend(code, **opts)
        raise Skip('m')
    if k == 'put_docstr':
        return f.put_docstr(op['text'], **opts)
    if k == 'put_line_comment':
        if 'field' in op:
            return f.put_line_comment(op['text'], op['field'])
        return f.put_line_comment(op['text'])
    raise Skip('kind ' + k)


def result_repr(r):
    """Deterministic short description of a return value."""
    try:
        import fst
        if isinstance(r, fst.FST):
            return f'FST:{r.a.__class__.__name__}:{r.root.src[:200]!r}' if r.a is not None else 'FST:dead'
        if r is None:
            return 'None'
        if isinstance(r, (str, int, float, bool, tuple, list, bytes, complex)):
            return repr(r)[:200]
        return r.__class__.__name__
    except Exception as e:  # pragma: no cover
        return 'repr-failed:' + e.__class__.__name__
