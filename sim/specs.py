"""Per-property check specifications (engine, run counts per tier, evidence text)."""

_EDIT_ASSUME = [
    "CPython 3.12's ast.parse / tokenize are the reference parser and tokenizer (trusted)",
    'only Module roots are exercised so that the reference parser applies',
    'sampling, not enumeration: programs come from the /verif/sim/corpus.py grammar corpus plus seeded layout perturbations',
]

SPECS = {
    'C01': {
        'engine': 'editsim', 'mod': 'sim.engines', 'quick': 24000, 'thorough': 400000, 'level': 'exploration',
        'rule': 'one evaluation = one seeded run: generated program (corpus picks + layout perturbations) and a history '
                'of 1-12 structured edits, ast.parse(src)==live tree (with positions) asserted after every edit that '
                'returned; non-trivial = at least one edit returned normally; distinct = distinct event-log digest '
                '(ops, outcomes, source hash after each step)',
        'assumptions': _EDIT_ASSUME + ['thread default norm=True for the whole run (attribute/view assignment take no options)',
                                       "options never include pars=False, norm=False, raw!=False"],
    },
    'C12': {
        'engine': 'editsim', 'mod': 'sim.engines', 'quick': 24000, 'thorough': 400000, 'level': 'fault_enumeration',
        'rule': 'one evaluation = one seeded run: program + history of 2-10 requests mixing valid edits with invalid '
                'requests of 12 fault kinds (F1 unparsable code, F2 wrong category, F3 ordering rule, F4 index/field, '
                'F5 bad option, F6 consumed tree, F7 non-root tree, F8 circular put, F9 emptying a non-empty-only field, '
                'F10 Compare insert without op, F11 to= without raw, F12 wrong python type); every request that raises is '
                'checked for (src, dump+positions) == snapshot, empty modification registry, and a following valid edit; '
                'fault kinds are enumerated per run from a swarm subset, states are sampled; non-trivial = at least one '
                'request raised after the tree had been edited or at least one op succeeded; distinct = event-log digest',
        'assumptions': _EDIT_ASSUME + ['MemoryError/KeyboardInterrupt style asynchronous failures are not injected (pfst does not promise rollback for them)'],
    },
}
