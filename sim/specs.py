"""Per-property check specifications (engine, run counts per tier, evidence text)."""

_EDIT_ASSUME = [
    "CPython 3.12's ast.parse / tokenize are the reference parser and tokenizer (trusted)",
    'only Module roots are exercised so that the reference parser applies',
    'sampling, not enumeration: programs come from the /verif/sim/corpus.py grammar corpus plus seeded layout perturbations',
]

SPECS = {
    'C01': {
        'engine': 'editsim', 'mod': 'sim.engines', 'quick': 36000, 'thorough': 400000, 'level': 'exploration',
        'rule': 'one evaluation = one seeded run: generated program (corpus picks + layout perturbations) and a history '
                'of 1-12 structured edits, ast.parse(src)==live tree (with positions) asserted after every edit that '
                'returned; non-trivial = at least one edit returned normally; distinct = distinct event-log digest '
                '(ops, outcomes, source hash after each step)',
        'assumptions': _EDIT_ASSUME + ['thread default norm=True for the whole run (attribute/view assignment take no options)',
                                       "options never include pars=False, norm=False, raw!=False"],
    },
    'C12': {
        'engine': 'editsim', 'mod': 'sim.engines', 'quick': 32000, 'thorough': 320000, 'level': 'fault_enumeration',
        'rule': 'one evaluation = one seeded run: program + history of 2-10 requests mixing valid edits with invalid '
                'requests of 12 fault kinds (F1 unparsable code, F2 wrong category, F3 ordering rule, F4 index/field, '
                'F5 bad option, F6 consumed tree, F7 non-root tree, F8 circular put, F9 emptying a non-empty-only field, '
                'F10 Compare insert without op, F11 to= without raw, F12 wrong python type); every request that raises is '
                'checked for (src, dump+positions) == snapshot, empty modification registry, and a following valid edit; '
                'fault kinds are enumerated per run from a swarm subset, states are sampled; non-trivial = at least one '
                'request raised after the tree had been edited or at least one op succeeded; distinct = event-log digest',
        'assumptions': _EDIT_ASSUME + ['MemoryError/KeyboardInterrupt style asynchronous failures are not injected (pfst does not promise rollback for them)'],
    },
    'C02': {
        'engine': 'editsim', 'mod': 'sim.engines', 'quick': 16000, 'thorough': 160000, 'level': 'exploration',
        'rule': 'one evaluation = one seeded run: program + history of 2-10 ops mixing structured edits with read-only '
                'query bursts (cache warming on seeded node subsets) and long-lived FSTView handles; after edits (every '
                'step, every third step, or only at the end - a swarm knob, so cold and warm caches are both explored) ~70 '
                'queries on EVERY node (loc/bloc/pars/own_src/links/navigation/predicates/views/docstr/walk order) are '
                'compared with the same queries on FST(root.src) built from scratch; non-trivial = at least one edit '
                'succeeded; distinct = event-log digest',
        'assumptions': _EDIT_ASSUME + ['reference = pfst itself on a freshly parsed tree (the property is relational)'],
    },
    'C03': {
        'engine': 'editsim', 'mod': 'sim.engines', 'quick': 20000, 'thorough': 240000, 'level': 'exploration',
        'rule': 'one evaluation = one seeded run: program + history of 1-6 VETTED container requests (slice put/delete, '
                'one-element put/delete, insert/append/prepend, optional-field put/delete) on ~45 (node type, field) '
                'container kinds with bounds in [-len-2, len+2] U {end}; the expected tree is computed on the pure AST '
                'with Python list operations and compared (whole-tree structure) with the live result, with the result of '
                'the same request through every other equivalent entry point on forked fresh trees, and on a re-laid-out '
                'twin; refusal of a vetted request is a violation unless not-implemented; non-trivial = at least one '
                'vetted request succeeded; distinct = event-log digest',
        'assumptions': _EDIT_ASSUME + ['only vetted families are asserted against the list model (see DESIGN 2.4); emptying a Set, starred/keyword interleavings and virtual fields with ordering rules are outside the vetted class'],
    },
    'C04': {
        'engine': 'editsim', 'mod': 'sim.engines', 'quick': 36000, 'thorough': 360000, 'level': 'exploration',
        'rule': 'one evaluation = one seeded run on a UNIQUE-TOKEN program (every NAME/NUMBER/STRING/COMMENT token text is '
                'unique, also in new code) with dense comments/blank lines and a history of 1-8 structured edits with '
                'trivia/pep8space/elif_/docstr/pars options; after each successful edit: no token outside the allowed set '
                'A (element extent + trivia-selected comments, computed from the pre-state by harness code) is lost, '
                'duplicated or reordered, and every non-blank pre-state line outside the allowed line set L is present '
                'byte-identical and in order; non-trivial = at least one edit changed the source; distinct = event-log digest',
        'assumptions': _EDIT_ASSUME + ['the allowed window is an upper bound re-implemented from the trivia documentation: sensitivity is lost where it is too wide, never soundness'],
    },
    'C07': {
        'engine': 'editsim', 'mod': 'sim.engines', 'quick': 16000, 'thorough': 200000, 'level': 'exploration',
        'rule': 'one evaluation = one seeded run: program (60 % unique-token) + history of 2-8 ops mixing edits with read ops '
                '(copy/get/get_slice/view.copy with trivia/pars/norm/docstr options) and cut-vs-copy+delete differentials on '
                'forked trees; after each read: source tree (src, dump+positions, query answers) unchanged, returned tree is '
                'a root, parses standalone and is structurally the original sub-tree/sub-list; cut == copy and remainder == '
                'delete; unique-token conservation tokens(before) = tokens(remainder) + tokens(piece); non-trivial = at least '
                'one read/cut op returned a tree; distinct = event-log digest',
        'assumptions': _EDIT_ASSUME + ['structural equality ignores expression contexts and whitespace after newlines inside string constants (documented docstring re-indentation)'],
    },
    'C08': {
        'engine': 'editsim', 'mod': 'sim.engines', 'quick': 32000, 'thorough': 320000, 'level': 'exploration',
        'rule': 'one evaluation = one seeded run: program + history of 1-6 composite ops (cut node/slice ... put back at the '
                'same place with cache-warming queries in between, repeated up to 4x; replace(node, own copy | own pure AST | '
                'own source | own_src()); own_src() re-parsed; put_docstr->get_docstr and put_line_comment->get_line_comment '
                'over texts with quotes, backslashes, control and non-ASCII characters) optionally interleaved with ordinary '
                'edits; structure (dump without positions) before == after; accessors read back exactly; non-trivial = at '
                'least one round trip completed; distinct = event-log digest',
        'assumptions': _EDIT_ASSUME + ['refusals documented as not implemented are not violations', 'comment round trip asserted only for single-line texts without leading/trailing whitespace'],
    },
    'C10': {
        'engine': 'editsim', 'mod': 'sim.engines', 'quick': 40000, 'thorough': 400000, 'level': 'exploration',
        'rule': 'one evaluation = one seeded run: program + history of 1-4 raw requests: put_src(text, rectangle, reparse) with '
                'rectangles on/off token and node boundaries and replacement text from a token soup (valid and invalid = fault '
                'R1), raw node puts (raw=True / raw=auto = fault P2) and reparse(); oracle: raise => (src, dump+positions, '
                'id(root), registry) unchanged; return => src == requested splice and tree == ast.parse(src) with positions; '
                'accepted iff the spliced source parses; non-trivial = at least one raw request was accepted; distinct = '
                'event-log digest',
        'assumptions': _EDIT_ASSUME + ['violations whose request satisfies a listed input predicate (rectangle touches a statement boundary / result changes the statement skeleton / whole source) are counted under the known findings'],
    },
    'C11': {
        'engine': 'editsim', 'mod': 'sim.engines', 'quick': 30000, 'thorough': 300000, 'level': 'exploration',
        'rule': 'one evaluation = one seeded run: program + history of 1-8 ops: trivia-only put_src(action=offset) edits at '
                'gaps between tokens found by tokenize (spaces, newline+indent and comment lines inside brackets, backslash '
                'continuations outside), called on the innermost node that strictly contains the spot (computed on the pure '
                'AST), interleaved with ordinary edits; precondition (ast only): new source parses to the same structure; '
                'oracle: live tree == ast.parse(new source) including every position; non-trivial = at least one offset edit '
                'was applied; distinct = event-log digest',
        'assumptions': _EDIT_ASSUME + ['sampled gaps, not enumerated'],
    },
    'C13': {
        'engine': 'reconsim', 'mod': 'sim.engines', 'quick': 20000, 'thorough': 240000, 'level': 'exploration',
        'rule': 'one evaluation = one seeded run: program, 1-3 rounds of mark() + 0-6 pure-AST mutations applied directly to '
                'root.a (replace by brand-new nodes, insert, delete, swap, duplicate by copy / by identity, move, graft from '
                'another FST tree unmodified / modified, change primitive values; each kept only if ast.unparse/ast.parse shows '
                'the mutated AST is valid) + reconcile(); fault P1: a seeded subset of the puts issued by the reconciler raise '
                'NodeError at entry (never the root-level fallback); oracle: result satisfies C01, dump == edited AST, identity '
                'when nothing changed, untouched Module-level statements keep their exact text; non-trivial = a reconcile '
                'with >= 1 mutation completed; distinct = digest of (mutations, fault calls, result source)',
        'assumptions': _EDIT_ASSUME + ['under fault P1 only validity and structural equality are asserted (formatting may legitimately be lost by the retry-at-parent path)'],
        'real_vs_stub': 'all pfst code ran real; harness-side wrapper: Reconcile.put_node (class attribute) for fault P1; stubs: none',
    },
    'C15': {
        'engine': 'walksim', 'mod': 'sim.engines', 'quick': 48000, 'thorough': 480000, 'level': 'exploration',
        'timeout_is_violation': True,
        'rule': 'one evaluation = one seeded schedule: a tree, walk()/search() parameters (all, on, back, recurse, scope, self_, '
                'start node) and at every yield a scheduler action drawn from {nothing, replace/remove the yielded node, '
                'ancestor k, previous/next sibling, insert before a sibling, send(False), send(True)} performed with real '
                'single-element non-raw edits; monitors at every yield: no raise, yielded node alive and really linked up to '
                'the walked root, AST node not yielded before on entry, yields <= 4*(nodes ever created)+16, no descendant '
                'after send(False); in order-mode runs (actions restricted to the current node) the next yield is compared '
                'with the quiescent walk; final tree checked against ast.parse; non-trivial = at least one action fired; '
                'distinct = digest of (yield, node type, action, outcome) log',
        'assumptions': _EDIT_ASSUME + ['"same node" = AST node identity (wrappers are documented to be reused)', 'the order reference is pfst\'s own quiescent walk() (C14 decides the order itself)'],
        'real_vs_stub': 'all pfst code ran real; the scheduler acts only at generator yields; stubs: none',
    },
    'C17': {
        'engine': 'matchsim', 'mod': 'sim.engines', 'quick': 8000, 'thorough': 100000, 'level': 'exploration',
        'rule': 'one evaluation = one seeded schedule over 2-4 live search() generators (25 pattern families: types, wildcard, '
                'MOR/MAND/MNOT, tags, back-references, greedy and non-greedy quantifiers, MRE) on 1-2 trees plus 2-8 plain '
                'match() calls issued between yields; the scheduler picks who advances; every party result (matched path and '
                'rendered tags) must equal the same call executed ALONE in a forked child; module-level shared containers '
                'must stay empty after every step; search(pattern) == [n for n in walk(all=True) if n.match(pattern)]; '
                'non-trivial = schedule with >= 2 parties interleaved; distinct = digest of (schedule, results)',
        'assumptions': ['PARTIAL SCOPE: only the state-isolation and search==filtered-walk clauses of C17 are decided; layout independence, self-match and regex-equivalence of quantifiers are pure functions of their input and are not decided here',
                        'references are computed by pfst itself in a forked child (relational property)'],
    },
    'C18': {
        'engine': 'subsim', 'mod': 'sim.engines', 'quick': 32000, 'thorough': 320000, 'level': 'exploration',
        'rule': 'one evaluation = one seeded subn() request: program (50 % unique-token; no match statements / f-strings / type '
                'parameters) x pattern family (10: Name/Call/BinOp/Attribute in Load context, BinOp with two captures, Return, '
                'Expr(Call), Pass, If, Assign) x template (wrap, identity, double slot, swap, block wrappers) x nested x count '
                'x on(enter/leave) x back x callback skips, executed twice: with simulator callbacks that run seeded read-only '
                'query bursts mid-substitution and without; oracle: both executions identical; structure == an independent '
                'source-ordered transformer on the pure AST; counts == reference; identity template keeps structure; C01 on the '
                'result; unique tokens outside substituted nodes conserved in order; non-trivial = at least one substitution '
                'happened; distinct = digest of (request outcome, result source)',
        'assumptions': _EDIT_ASSUME + ['only pattern/template families the reference can mirror exactly are generated; requests whose reference result is not valid Python are not judged'],
    },
    'C20': {
        'engine': 'threadsim', 'mod': 'sim.engines', 'quick': 8000, 'thorough': 80000, 'level': 'exploration',
        'rule': 'one evaluation = one seeded schedule: 2-4 REAL threads, each with its own tree and a script of 3-10 ops '
                '(set_options, nested options() blocks incl. bodies that raise = fault O1, invalid option names/values = '
                'fault F5, edits and copies with and without per-call options, get_options() snapshots); only one thread is '
                'runnable at a time: a sys.settrace line counter pre-empts the running thread inside pfst code after a drawn '
                'quantum (mean 5-500 lines, fault T1) and hands the baton to the thread the PRNG picks; oracle: per-op '
                'records (return/exception, source hash, option snapshots) of every thread == the same script run alone '
                'in a fresh thread; option store == sequential model after every op; modification registry empty at '
                'quiescence; non-trivial = at least one context switch inside pfst code; distinct = digest of (records, '
                'scheduling decisions)',
        'assumptions': ['pre-emption granularity is one traced source line inside /repo/src/fst (not bytecode)', 'each thread edits its own tree (the property does not cover sharing one tree between threads)'],
        'real_vs_stub': 'all pfst code ran real on real threads; harness-side: baton scheduler (threading.Event per thread) and trace-based pre-emption; stubs: none',
        'det_sample': 6,
    },
}

LEVEL_TEXT = {
    'C01': 'Seeded exploration of edit histories on generated programs with an oracle that shares no code with pfst (ast.parse of the current source, compared with positions). Evidence, not proof: the space (programs x histories x targets x code forms x options) is sampled with a fixed run count per tier.',
    'C02': 'Seeded exploration of interleavings of cache-populating queries with edits; every observable answer of every node is compared with a freshly built tree. Relational oracle (pfst on a fresh tree), so it decides staleness, not absolute correctness of answers.',
    'C03': 'Model conformance op by op: each vetted container request is executed on the real tree and on a Python-list model of the pure AST; all equivalent entry points and a layout twin must agree with the model. Sampling of containers/bounds/entry points, not enumeration.',
    'C04': 'Seeded exploration on unique-token programs: token loss/duplication/reordering outside an upper-bound window is decided exactly by tokenize; line preservation outside the window byte for byte. Sound but not complete (window is an upper bound).',
    'C07': 'Seeded exploration of read operations inside edit histories with bit-identical source-tree snapshots, standalone parse of returned trees and forked cut vs copy+delete differentials.',
    'C08': 'Seeded exploration of two-step round-trip histories (cut ... put back, self replacement in four code forms, accessor write->read) with structural equality before/after.',
    'C10': 'Seeded exploration of raw edit histories; full re-parse of the requested splice as reference; atomicity on raise. Requests matching listed input predicates are counted as known findings.',
    'C11': 'Seeded exploration of trivia-only offset edits at token gaps inside histories, compared with a from-scratch parse including every position.',
    'C12': 'Fault enumeration: 12 kinds of invalid request are enumerated (swarm subset per run) against sampled states and targets inside histories; each raising request is checked for exact rollback, lock release and a following valid edit.',
    'C13': 'Seeded exploration of pure-AST mutation histories with mark/reconcile rounds, plus fault injection (P1) into the reconciler\'s own puts to drive its retry-at-parent recovery path.',
    'C15': 'Seeded search over schedules: at every generator yield a scheduler action (mutation or send) is drawn; safety monitors run at every yield and an order oracle in restricted schedules. Every schedule is one exactly repeatable execution.',
    'C17': 'PARTIAL: only "a match never depends on previous match calls" and "search == filtered walk" are decided, by seeded schedules of interleaved live generators and match calls compared with the same calls run alone in forked children.',
    'C18': 'Seeded exploration of subn() requests with simulator callbacks injecting queries mid-substitution, compared with an independent source-ordered transformer on the pure AST (structure and counts), C01 and token conservation.',
    'C20': 'Seeded search over thread interleavings: real threads stepped one at a time by a baton scheduler with line-granular pre-emption inside pfst; each thread\'s results must equal its results when run alone, and the option store must follow a sequential model.',
}

ENGINES = [
    {'name': 'editsim', 'path': 'sim/editsim.py', 'serves_properties': ['C01', 'C02', 'C03', 'C04', 'C07', 'C08', 'C10', 'C11', 'C12'],
     'kind_free_text': 'sequential history machine: seeded program + op/fault history on the real pfst tree, reference model from ast.parse/tokenize, op-by-op oracles (plugins in sim/props_*.py)'},
    {'name': 'reconsim', 'path': 'sim/reconsim.py', 'serves_properties': ['C13'],
     'kind_free_text': 'mark / pure-AST mutation history / reconcile rounds with fault P1 injected into the reconciler puts'},
    {'name': 'walksim', 'path': 'sim/walksim.py', 'serves_properties': ['C15'],
     'kind_free_text': 'coroutine scheduler acting at every yield of walk()/search()'},
    {'name': 'matchsim', 'path': 'sim/matchsim.py', 'serves_properties': ['C17'],
     'kind_free_text': 'scheduler over several live search() generators and match() calls; forked run-alone references'},
    {'name': 'subsim', 'path': 'sim/subsim.py', 'serves_properties': ['C18'],
     'kind_free_text': 'subn() with query-injecting callbacks vs pure-AST reference transformer'},
    {'name': 'threadsim', 'path': 'sim/threadsim.py', 'serves_properties': ['C20'],
     'kind_free_text': 'real threads under a seeded baton scheduler with sys.settrace line-granular pre-emption'},
]

NOT_APPLICABLE = [
    {'property_id': 'C05', 'reason': 'pure function of (source text, parse mode): no state, schedule, fault or history for a simulator to control; needs differential input testing, which is another technique'},
    {'property_id': 'C06', 'reason': 'pure function of the program (locations of a quiescent tree); on edited trees it reduces to C02, which is claimed'},
    {'property_id': 'C09', 'reason': 'a finite (parent field x child kind x layout) table to be enumerated with the parser as judge: no state, schedule or fault; its failures do surface as C01 parse mismatches but C09 itself is not claimed'},
    {'property_id': 'C14', 'reason': 'pure function of a quiescent tree and walk parameters; the dynamic aspects are covered where they belong (walk under mutation: C15; navigation after edits: C02)'},
    {'property_id': 'C16', 'reason': 'pure function of the program (comparison with symtable); nothing for a scheduler or fault injector to act on'},
    {'property_id': 'C19', 'reason': 'pure function of (node, mode, options); the copy/non-copy contract is per call, not a history'},
]
