"""Per-property check specifications (engine, run counts per tier, evidence text)."""

_EDIT_ASSUME = [
    "CPython 3.12's ast.parse / tokenize are the reference parser and tokenizer (trusted)",
    'only Module roots are exercised so that the reference parser applies',
    'sampling, not enumeration: programs come from the /verif/sim/corpus.py grammar corpus plus seeded layout perturbations',
]

SPECS = {
    'C01': {
        'engine': 'editsim', 'mod': 'sim.engines', 'quick': 24000, 'thorough': 400000, 'level': 'exploration',
        'rule': 'one evaluation = one seeded run: generated program (corpus picks + layout perturbations) and a history '
                'of 1-12 structured edits, ast.parse(src)==live tree (with positions) asserted after every edit that '
                'returned; non-trivial = at least one edit returned normally; distinct = distinct event-log digest '
                '(ops, outcomes, source hash after each step)',
        'assumptions': _EDIT_ASSUME + ['thread default norm=True for the whole run (attribute/view assignment take no options)',
                                       "options never include pars=False, norm=False, raw!=False"],
    },
    'C12': {
        'engine': 'editsim', 'mod': 'sim.engines', 'quick': 24000, 'thorough': 400000, 'level': 'fault_enumeration',
        'rule': 'one evaluation = one seeded run: program + history of 2-10 requests mixing valid edits with invalid '
                'requests of 12 fault kinds (F1 unparsable code, F2 wrong category, F3 ordering rule, F4 index/field, '
                'F5 bad option, F6 consumed tree, F7 non-root tree, F8 circular put, F9 emptying a non-empty-only field, '
                'F10 Compare insert without op, F11 to= without raw, F12 wrong python type); every request that raises is '
                'checked for (src, dump+positions) == snapshot, empty modification registry, and a following valid edit; '
                'fault kinds are enumerated per run from a swarm subset, states are sampled; non-trivial = at least one '
                'request raised after the tree had been edited or at least one op succeeded; distinct = event-log digest',
        'assumptions': _EDIT_ASSUME + ['MemoryError/KeyboardInterrupt style asynchronous failures are not injected (pfst does not promise rollback for them)'],
    },
    'C02': {
        'engine': 'editsim', 'mod': 'sim.engines', 'quick': 6000, 'thorough': 100000, 'level': 'exploration',
        'rule': 'one evaluation = one seeded run: program + history of 2-10 ops mixing structured edits with read-only '
                'query bursts (cache warming on seeded node subsets) and long-lived FSTView handles; after edits (every '
                'step, every third step, or only at the end - a swarm knob, so cold and warm caches are both explored) ~70 '
                'queries on EVERY node (loc/bloc/pars/own_src/links/navigation/predicates/views/docstr/walk order) are '
                'compared with the same queries on FST(root.src) built from scratch; non-trivial = at least one edit '
                'succeeded; distinct = event-log digest',
        'assumptions': _EDIT_ASSUME + ['reference = pfst itself on a freshly parsed tree (the property is relational)'],
    },
    'C03': {
        'engine': 'editsim', 'mod': 'sim.engines', 'quick': 8000, 'thorough': 150000, 'level': 'exploration',
        'rule': 'one evaluation = one seeded run: program + history of 1-6 VETTED container requests (slice put/delete, '
                'one-element put/delete, insert/append/prepend, optional-field put/delete) on ~45 (node type, field) '
                'container kinds with bounds in [-len-2, len+2] U {end}; the expected tree is computed on the pure AST '
                'with Python list operations and compared (whole-tree structure) with the live result, with the result of '
                'the same request through every other equivalent entry point on forked fresh trees, and on a re-laid-out '
                'twin; refusal of a vetted request is a violation unless not-implemented; non-trivial = at least one '
                'vetted request succeeded; distinct = event-log digest',
        'assumptions': _EDIT_ASSUME + ['only vetted families are asserted against the list model (see DESIGN 2.4); emptying a Set, starred/keyword interleavings and virtual fields with ordering rules are outside the vetted class'],
    },
    'C04': {
        'engine': 'editsim', 'mod': 'sim.engines', 'quick': 12000, 'thorough': 200000, 'level': 'exploration',
        'rule': 'one evaluation = one seeded run on a UNIQUE-TOKEN program (every NAME/NUMBER/STRING/COMMENT token text is '
                'unique, also in new code) with dense comments/blank lines and a history of 1-8 structured edits with '
                'trivia/pep8space/elif_/docstr/pars options; after each successful edit: no token outside the allowed set '
                'A (element extent + trivia-selected comments, computed from the pre-state by harness code) is lost, '
                'duplicated or reordered, and every non-blank pre-state line outside the allowed line set L is present '
                'byte-identical and in order; non-trivial = at least one edit changed the source; distinct = event-log digest',
        'assumptions': _EDIT_ASSUME + ['the allowed window is an upper bound re-implemented from the trivia documentation: sensitivity is lost where it is too wide, never soundness'],
    },
    'C07': {
        'engine': 'editsim', 'mod': 'sim.engines', 'quick': 10000, 'thorough': 200000, 'level': 'exploration',
        'rule': 'one evaluation = one seeded run: program (60 % unique-token) + history of 2-8 ops mixing edits with read ops '
                '(copy/get/get_slice/view.copy with trivia/pars/norm/docstr options) and cut-vs-copy+delete differentials on '
                'forked trees; after each read: source tree (src, dump+positions, query answers) unchanged, returned tree is '
                'a root, parses standalone and is structurally the original sub-tree/sub-list; cut == copy and remainder == '
                'delete; unique-token conservation tokens(before) = tokens(remainder) + tokens(piece); non-trivial = at least '
                'one read/cut op returned a tree; distinct = event-log digest',
        'assumptions': _EDIT_ASSUME + ['structural equality ignores expression contexts and whitespace after newlines inside string constants (documented docstring re-indentation)'],
    },
    'C08': {
        'engine': 'editsim', 'mod': 'sim.engines', 'quick': 12000, 'thorough': 200000, 'level': 'exploration',
        'rule': 'one evaluation = one seeded run: program + history of 1-6 composite ops (cut node/slice ... put back at the '
                'same place with cache-warming queries in between, repeated up to 4x; replace(node, own copy | own pure AST | '
                'own source | own_src()); own_src() re-parsed; put_docstr->get_docstr and put_line_comment->get_line_comment '
                'over texts with quotes, backslashes, control and non-ASCII characters) optionally interleaved with ordinary '
                'edits; structure (dump without positions) before == after; accessors read back exactly; non-trivial = at '
                'least one round trip completed; distinct = event-log digest',
        'assumptions': _EDIT_ASSUME + ['refusals documented as not implemented are not violations', 'comment round trip asserted only for single-line texts without leading/trailing whitespace'],
    },
    'C10': {
        'engine': 'editsim', 'mod': 'sim.engines', 'quick': 16000, 'thorough': 300000, 'level': 'exploration',
        'rule': 'one evaluation = one seeded run: program + history of 1-4 raw requests: put_src(text, rectangle, reparse) with '
                'rectangles on/off token and node boundaries and replacement text from a token soup (valid and invalid = fault '
                'R1), raw node puts (raw=True / raw=auto = fault P2) and reparse(); oracle: raise => (src, dump+positions, '
                'id(root), registry) unchanged; return => src == requested splice and tree == ast.parse(src) with positions; '
                'accepted iff the spliced source parses; non-trivial = at least one raw request was accepted; distinct = '
                'event-log digest',
        'assumptions': _EDIT_ASSUME + ['violations whose request satisfies a listed input predicate (rectangle touches a statement boundary / result changes the statement skeleton / whole source) are counted under the known findings'],
    },
    'C11': {
        'engine': 'editsim', 'mod': 'sim.engines', 'quick': 16000, 'thorough': 300000, 'level': 'exploration',
        'rule': 'one evaluation = one seeded run: program + history of 1-8 ops: trivia-only put_src(action=offset) edits at '
                'gaps between tokens found by tokenize (spaces, newline+indent and comment lines inside brackets, backslash '
                'continuations outside), called on the innermost node that strictly contains the spot (computed on the pure '
                'AST), interleaved with ordinary edits; precondition (ast only): new source parses to the same structure; '
                'oracle: live tree == ast.parse(new source) including every position; non-trivial = at least one offset edit '
                'was applied; distinct = event-log digest',
        'assumptions': _EDIT_ASSUME + ['sampled gaps, not enumerated'],
    },
    'C13': {
        'engine': 'reconsim', 'mod': 'sim.engines', 'quick': 6000, 'thorough': 100000, 'level': 'exploration',
        'rule': 'one evaluation = one seeded run: program, 1-3 rounds of mark() + 0-6 pure-AST mutations applied directly to '
                'root.a (replace by brand-new nodes, insert, delete, swap, duplicate by copy / by identity, move, graft from '
                'another FST tree unmodified / modified, change primitive values; each kept only if ast.unparse/ast.parse shows '
                'the mutated AST is valid) + reconcile(); fault P1: a seeded subset of the puts issued by the reconciler raise '
                'NodeError at entry (never the root-level fallback); oracle: result satisfies C01, dump == edited AST, identity '
                'when nothing changed, untouched Module-level statements keep their exact text; non-trivial = a reconcile '
                'with >= 1 mutation completed; distinct = digest of (mutations, fault calls, result source)',
        'assumptions': _EDIT_ASSUME + ['under fault P1 only validity and structural equality are asserted (formatting may legitimately be lost by the retry-at-parent path)'],
        'real_vs_stub': 'all pfst code ran real; harness-side wrapper: Reconcile.put_node (class attribute) for fault P1; stubs: none',
    },
    'C15': {
        'engine': 'walksim', 'mod': 'sim.engines', 'quick': 16000, 'thorough': 300000, 'level': 'exploration',
        'timeout_is_violation': True,
        'rule': 'one evaluation = one seeded schedule: a tree, walk()/search() parameters (all, on, back, recurse, scope, self_, '
                'start node) and at every yield a scheduler action drawn from {nothing, replace/remove the yielded node, '
                'ancestor k, previous/next sibling, insert before a sibling, send(False), send(True)} performed with real '
                'single-element non-raw edits; monitors at every yield: no raise, yielded node alive and really linked up to '
                'the walked root, AST node not yielded before on entry, yields <= 4*(nodes ever created)+16, no descendant '
                'after send(False); in order-mode runs (actions restricted to the current node) the next yield is compared '
                'with the quiescent walk; final tree checked against ast.parse; non-trivial = at least one action fired; '
                'distinct = digest of (yield, node type, action, outcome) log',
        'assumptions': _EDIT_ASSUME + ['"same node" = AST node identity (wrappers are documented to be reused)', 'the order reference is pfst\'s own quiescent walk() (C14 decides the order itself)'],
        'real_vs_stub': 'all pfst code ran real; the scheduler acts only at generator yields; stubs: none',
    },
    'C17': {
        'engine': 'matchsim', 'mod': 'sim.engines', 'quick': 3000, 'thorough': 50000, 'level': 'exploration',
        'rule': 'one evaluation = one seeded schedule over 2-4 live search() generators (25 pattern families: types, wildcard, '
                'MOR/MAND/MNOT, tags, back-references, greedy and non-greedy quantifiers, MRE) on 1-2 trees plus 2-8 plain '
                'match() calls issued between yields; the scheduler picks who advances; every party result (matched path and '
                'rendered tags) must equal the same call executed ALONE in a forked child; module-level shared containers '
                'must stay empty after every step; search(pattern) == [n for n in walk(all=True) if n.match(pattern)]; '
                'non-trivial = schedule with >= 2 parties interleaved; distinct = digest of (schedule, results)',
        'assumptions': ['PARTIAL SCOPE: only the state-isolation and search==filtered-walk clauses of C17 are decided; layout independence, self-match and regex-equivalence of quantifiers are pure functions of their input and are not decided here',
                        'references are computed by pfst itself in a forked child (relational property)'],
    },
    'C18': {
        'engine': 'subsim', 'mod': 'sim.engines', 'quick': 8000, 'thorough': 150000, 'level': 'exploration',
        'rule': 'one evaluation = one seeded subn() request: program (50 % unique-token; no match statements / f-strings / type '
                'parameters) x pattern family (10: Name/Call/BinOp/Attribute in Load context, BinOp with two captures, Return, '
                'Expr(Call), Pass, If, Assign) x template (wrap, identity, double slot, swap, block wrappers) x nested x count '
                'x on(enter/leave) x back x callback skips, executed twice: with simulator callbacks that run seeded read-only '
                'query bursts mid-substitution and without; oracle: both executions identical; structure == an independent '
                'source-ordered transformer on the pure AST; counts == reference; identity template keeps structure; C01 on the '
                'result; unique tokens outside substituted nodes conserved in order; non-trivial = at least one substitution '
                'happened; distinct = digest of (request outcome, result source)',
        'assumptions': _EDIT_ASSUME + ['only pattern/template families the reference can mirror exactly are generated; requests whose reference result is not valid Python are not judged'],
    },
}
