"""C03 - edits follow Python container semantics and change nothing else in the tree.

Vetted requests only: families whose result is valid Python by construction.  For each request the expected tree is
computed on the pure AST with Python list operations; the live result, the results of the same request through other
equivalent entry points (on forked fresh trees) and on a re-laid-out twin must all equal it structurally."""

import ast
import copy

from . import ops as O
from . import progen
from .editsim import Plugin, StopRun, Violation, check_consistent, modifying_registry, plugin
from .model import iter_paths, resolve, sdump

# container kinds: (element pool, parse function for one element -> AST or list of AST or str)

EXPR_POOL = ['x', 'y', 'zz', 'f(y)', '1', "'s'", 'x + y', 'x.y', 'x[y]', '[x]', '-x', 'not x', 'x < y', 'x and y',
             'x if y else z', 'f(x, y=1)', 'ä', "'🎉'", 'None', 'x ** y', '{x: y}', '{x}', 'f()()', 'x[1:2]']
TARGET_POOL = ['x', 'y', 'x.y', 'x[y]', 'zz', 'ä', 'x[1:2]', 'f().y']
STMT_POOL = ['x = y', 'pass', 'f(x)', 'del x', 'return x', 'x += 1', 'assert x', 'import x', 'global x', 'x: int = 1',
             'raise x', 'break', 'x = [y,\n     z]', 'if x: pass', 'if x:\n    y\nelse:\n    z', 'for x in y: z',
             'while x:\n    y', 'def g(): pass', 'class C: pass', 'with x: y', 'try: x\nfinally: y', 'x; y', '"s"',
             '@d\ndef g(x):\n    return x', 'ä = 1', 'match x:\n    case 1: pass']
PATTERN_POOL = ['x', '1', '[x, y]', 'C()', '"s"', 'None', 'x.y', '{"k": x}', 'C(x, y=1)']
ORPATTERN_POOL = ['1', '"s"', 'None', 'x.y', 'C()', '[1]']


def _e(text):
    return ast.parse(text, mode='eval').body


KINDS = {
    'expr': (EXPR_POOL, _e, ', '),
    'del_target': (TARGET_POOL, lambda t: ast.parse('del ' + t).body[0].targets[0], ', '),
    'assign_target': (TARGET_POOL, lambda t: ast.parse(t + ' = 1').body[0].targets[0], ' = '),
    # elements of a List / Tuple that is itself an assignment or for target (Store context): one Starred is allowed
    'store_elt': (TARGET_POOL + ['*s', '*t.u', '(c, d)', '[c, *d]', '(c, *d)'], lambda t: ast.parse('[' + t + '] = 1').body[0].targets[0].elts[0], ', '),
    'stmt': (STMT_POOL, lambda t: ast.parse(t).body, '\n'),
    'alias_import': (['x', 'x.y', 'x as y', 'x.y as z', 'ä'], lambda t: ast.parse('import ' + t).body[0].names[0], ', '),
    'alias_from': (['x', 'x as y', 'zz', 'ä as y'], lambda t: ast.parse('from m import ' + t).body[0].names[0], ', '),
    'name': (['x', 'y', 'zz', 'ä'], lambda t: t, ', '),
    'withitem': (['x', 'x as y', 'f() as y', 'x as (y, z)', 'x as y.z'], lambda t: ast.parse(f'with {t}: pass').body[0].items[0], ', '),
    'pattern': (PATTERN_POOL, lambda t: O.harness_ast('pattern', t), ', '),
    'orpattern': (ORPATTERN_POOL, lambda t: O.harness_ast('pattern', t), ' | '),
    'match_case': (['case 1: pass', 'case x: pass', 'case [x, y]:\n    z', 'case 1 if x: pass'], lambda t: O.harness_ast('match_case', t), '\n'),
    'comprehension': (['for x in y', 'for x in y if z', 'async for x in y'], lambda t: O.harness_ast('comprehension', t), ' '),
    'type_param': (['T', 'T: int', 'U', '*Ts', '**P'], lambda t: O.harness_ast('type_param', t), ', '),
    'decorator': (['d', 'd.e', 'd(x)', 'd.e(x)(y)'], _e, '\n'),
    'boolvalue': (['x', 'y', 'f(y)', 'not x', 'x < y', 'x.y', '1'], _e, None),
    'if_': (['x', 'y', 'f(y)', 'not x', 'x < y', 'x.y'], _e, None),
}


def containers(tree):
    """[(path, node, field, kind, min_len)] vetted list containers in the current tree."""
    out = []
    store_tuples = set()
    in_subscript = set()
    in_fstr = set()
    for n in ast.walk(tree):
        if isinstance(n, ast.Subscript):
            in_subscript.add(id(n.slice))
        if isinstance(n, (ast.JoinedStr,)):
            for m in ast.walk(n):
                in_fstr.add(id(m))
    for path, node, parent, field, idx in [((), tree, None, None, None)] + list(iter_paths(tree)):
        if id(node) in in_fstr:
            continue
        c = node.__class__
        add = lambda f, kind, mn=0: out.append((path, node, f, kind, mn))  # noqa: E731
        if c in (ast.List, ast.Tuple, ast.Set):
            if isinstance(getattr(node, 'ctx', None), ast.Store) and (
                    (isinstance(parent, ast.Assign) and field == 'targets') or (isinstance(parent, (ast.For, ast.AsyncFor)) and field == 'target')):
                if c is ast.List or len(node.elts) != 1:  # ('a, = x': a one-element unparenthesized Tuple target has its own comma rules)
                    add('elts', 'store_elt', 0 if c is ast.List else 2)
                continue
            if isinstance(getattr(node, 'ctx', None), (ast.Store, ast.Del)):
                continue
            if c is ast.Tuple and id(node) in in_subscript:
                continue
            if any(isinstance(e, ast.Starred) for e in node.elts):
                continue
            if c is ast.Tuple and isinstance(parent, (ast.Return, ast.Assign, ast.Yield, ast.For, ast.AugAssign, ast.AnnAssign, ast.withitem, ast.comprehension, ast.Subscript, ast.Index if hasattr(ast, 'Index') else ast.Tuple)) is False and parent is not None and not isinstance(parent, (ast.Expr, ast.List, ast.Tuple, ast.Set, ast.Call, ast.Dict, ast.keyword, ast.Return, ast.Assign)):
                continue
            add('elts', 'expr', 1 if c is ast.Set else 0)
        elif c is ast.Call:
            if not node.keywords and not any(isinstance(a, (ast.Starred, ast.GeneratorExp)) for a in node.args):
                add('args', 'expr')
            elif node.keywords and not any(isinstance(a, ast.GeneratorExp) for a in node.args) and lead_limit(node, 'args'):
                add('args', 'expr')   # only requests inside the positional arguments that precede the first keyword are vetted
        elif c is ast.ClassDef:
            if not node.keywords and not any(isinstance(a, ast.Starred) for a in node.bases):
                add('bases', 'expr')
            add('body', 'stmt', 1)
            add('decorator_list', 'decorator')
            if node.type_params and all(isinstance(t, ast.TypeVar) for t in node.type_params):
                add('type_params', 'type_param')
        elif c is ast.Delete:
            if all(not isinstance(t, (ast.Tuple, ast.List)) for t in node.targets):
                add('targets', 'del_target', 1)
        elif c is ast.Assign:
            if all(not isinstance(t, (ast.Tuple, ast.List, ast.Starred)) for t in node.targets):
                add('targets', 'assign_target', 1)
        elif c is ast.Module:
            add('body', 'stmt', 0)
        elif c in (ast.FunctionDef, ast.AsyncFunctionDef):
            add('body', 'stmt', 1)
            add('decorator_list', 'decorator')
        elif c in (ast.For, ast.AsyncFor, ast.While):
            add('body', 'stmt', 1)
            add('orelse', 'stmt', 0)
        elif c is ast.If:
            add('body', 'stmt', 1)
            add('orelse', 'stmt', 0)
        elif c in (ast.With, ast.AsyncWith):
            add('body', 'stmt', 1)
            add('items', 'withitem', 1)
        elif c in (ast.Try, ast.TryStar):
            add('body', 'stmt', 1)
            if node.handlers:
                add('orelse', 'stmt', 0)
                add('finalbody', 'stmt', 0)
            else:
                add('finalbody', 'stmt', 1)
        elif c is ast.ExceptHandler:
            add('body', 'stmt', 1)
        elif c is ast.match_case:
            add('body', 'stmt', 1)
        elif c is ast.Match:
            add('cases', 'match_case', 1)
        elif c is ast.Import:
            add('names', 'alias_import', 1)
        elif c is ast.ImportFrom:
            if not any(a.name == '*' for a in node.names):
                add('names', 'alias_from', 1)
        elif c in (ast.Global, ast.Nonlocal):
            add('names', 'name', 1)
        elif c is ast.BoolOp:
            add('values', 'boolvalue', 2)
        elif c is ast.comprehension:
            add('ifs', 'if_', 0)
        elif c in (ast.ListComp, ast.SetComp, ast.GeneratorExp, ast.DictComp):
            add('generators', 'comprehension', 1)
        elif c is ast.MatchSequence:
            if not any(isinstance(p, ast.MatchStar) for p in node.patterns):
                add('patterns', 'pattern', 0)
        elif c is ast.MatchOr:
            add('patterns', 'orpattern', 2)
        elif c is ast.MatchClass:
            if not node.kwd_patterns:
                add('patterns', 'pattern', 0)
    return out


# optional single fields: (class, field, pool, precondition(node, parent))
OPTIONALS = [
    (ast.Return, 'value', EXPR_POOL, None),
    (ast.FunctionDef, 'returns', ['int', 'x.y', 'list[int]', "'s'"], None),
    (ast.AsyncFunctionDef, 'returns', ['int', 'x.y', 'list[int]'], None),
    (ast.Assert, 'msg', EXPR_POOL, None),
    (ast.Yield, 'value', ['x', 'f(y)', '1', 'x + y'], None),
    (ast.match_case, 'guard', ['x', 'f(y)', 'x < y', 'not x'], None),
    (ast.Raise, 'cause', ['x', 'f(y)', 'x.y'], lambda n, p: n.exc is not None),
    (ast.arg, 'annotation', ['int', 'x.y', 'list[int]'], lambda n, p: not (isinstance(p, ast.arguments) and getattr(p, '_in_lambda', False))),
    (ast.AnnAssign, 'value', EXPR_POOL, lambda n, p: n.simple == 1 or n.value is None),
    (ast.Slice, 'lower', ['x', '1', 'f(y)'], None),
    (ast.Slice, 'upper', ['x', '1', 'f(y)'], None),
    (ast.Slice, 'step', ['x', '1'], None),
    (ast.withitem, 'optional_vars', ['x', 'x.y', 'x[y]'], None),
    (ast.comprehension, 'ifs', None, None),
]


def optionals(tree):
    out = []
    lambdas_args = set()
    for n in ast.walk(tree):
        if isinstance(n, ast.Lambda):
            lambdas_args.add(id(n.args))
    in_fstr = set()
    for n in ast.walk(tree):
        if isinstance(n, ast.JoinedStr):
            for m in ast.walk(n):
                in_fstr.add(id(m))
    for path, node, parent, field, idx in iter_paths(tree):
        if id(node) in in_fstr:
            continue
        for cls, f, pool, pre in OPTIONALS:
            if node.__class__ is cls and pool is not None:
                if cls is ast.arg and (id(parent) in lambdas_args or field in ('vararg',)):
                    continue
                if cls is ast.AnnAssign and not (node.simple == 1 or node.value is None):
                    continue
                if cls is ast.Raise and node.exc is None:
                    continue
                if cls is ast.Yield and not isinstance(parent, (ast.Expr, ast.Assign)):
                    continue
                out.append((path, node, f, pool))
    return out


def ddump(node):
    """ast.dump-like structure dump (contexts and all fields kept) in which the indentation-dependent whitespace of
    DOCSTRING-like strings (every string that is an expression statement: pfst's default `docstr=True`) is neutralised:
    whitespace after a newline and runs of blanks (continuation lines after a backslash-newline inside the quotes).
    pfst documents that such strings are re-indented with their block, so a statement edit that re-indents a block
    (elif <-> else/if conversion, moving a statement to another depth) changes that whitespace and nothing else."""
    import re
    out = []

    def rec(n, doc=False):
        if isinstance(n, ast.AST):
            out.append(n.__class__.__name__ + '(')
            for f in n._fields:
                v = getattr(n, f, None)
                out.append(f + '=')
                rec(v, f == 'value' and (doc or (isinstance(n, ast.Expr) and isinstance(v, ast.Constant) and isinstance(v.value, str))))
                out.append(', ')
            out.append(')')
        elif isinstance(n, list):
            out.append('[')
            for x in n:
                rec(x)
                out.append(', ')
            out.append(']')
        elif doc and isinstance(n, str):
            out.append(repr(re.sub(r'[ \t]{2,}', ' ', re.sub(r'\n[ \t]*', '\n', n))))
        else:
            out.append(repr(n))
    rec(node)
    return ''.join(out)


def lead_limit(node, field):
    """For Call.args of a call that has keywords: how many of the positional arguments stand before the first keyword in
    the source (a request that stays inside them has an unambiguous, valid result).  None = no restriction."""
    if not (isinstance(node, ast.Call) and field == 'args' and node.keywords):
        return None
    first_kw = min((k.lineno, k.col_offset) for k in node.keywords)
    return sum(1 for a in node.args if (a.lineno, a.col_offset) < first_kw)


def norm_slice(n, a, b):
    """Python list slice normalisation; 'end' -> n.  Returns (a', b') or None if a' > b'."""
    def one(i):
        if i == 'end' or i is None:
            return n
        if i < 0:
            return max(0, i + n)
        return min(n, i)
    a2, b2 = one(a), one(b)
    if a == 'end':
        a2 = n
    return (a2, b2) if a2 <= b2 else None


SLICE_ENTRIES = ['put_slice', 'put', 'view', 'view_replace']
ONE_ENTRIES = ['put', 'replace', 'view', 'put_slice_one']
DEL_ENTRIES = ['remove', 'put_none', 'view_del', 'put_slice_none', 'cut', 'replace_none']
OPT_PUT_ENTRIES = ['put', 'attr', 'replace']
OPT_DEL_ENTRIES = ['put_none', 'attr_del', 'remove', 'attr_none']


@plugin
class C03(Plugin):
    prop = 'C03'
    n_steps = (1, 6)

    def configure(self, rng):
        cfg = super().configure(rng)
        cfg['p_fork'] = rng.choice([0.0, 0.5, 1.0])
        cfg['p_twin'] = rng.choice([0.0, 0.3])
        cfg['wild'] = rng.choice([0.0, 0.2, 0.4])
        cfg['max_lines'] = 40
        return cfg

    # -- generation ---------------------------------------------------------------------------------------------------

    def gen_op(self, rng):
        run = self.run
        tree = run.root.a
        cfg = run.cfg
        r = rng.random()
        op = None
        if r < 0.15:
            c = optionals(tree)
            if c:
                path, node, f, pool = rng.choice(c)
                cur = getattr(node, f)
                if cur is not None and rng.random() < 0.5:
                    if isinstance(node, ast.AnnAssign) and node.simple != 1:
                        return None
                    if isinstance(node, ast.Slice):
                        pass
                    op = {'k': 'c03', 'mode': 'opt_del', 'path': [list(p) for p in path], 'field': f,
                          'entry': rng.choice(OPT_DEL_ENTRIES)}
                    if cur is None and op['entry'] == 'remove':
                        op['entry'] = 'put_none'
                else:
                    op = {'k': 'c03', 'mode': 'opt_put', 'path': [list(p) for p in path], 'field': f,
                          'elems': [rng.choice(pool)], 'entry': rng.choice(OPT_PUT_ENTRIES)}
                    if cur is None and op['entry'] == 'replace':
                        op['entry'] = 'put'
        focus = cfg.get('focus_cls')
        if op is None and rng.random() < (0.5 if focus in ('Call', 'ClassDef', 'Dict', 'MatchClass') and str(cfg.get('focus_field')).startswith('_') else 0.12):
            op = self.gen_virt(rng)
            if op is not None:
                if rng.random() < cfg['p_twin']:
                    tw = progen.relayout(rng, run.root.src, 6)
                    if tw != run.root.src:
                        op['twin'] = tw
                return op
        if op is None:
            cs = containers(tree)
            if not cs:
                return None
            if focus and rng.random() < 0.7:
                cs = [c for c in cs if c[1].__class__.__name__ == focus
                      and (cfg.get('focus_field') in (None, c[2]) or rng.random() < 0.3)] or cs
            path, node, field, kind, mn = rng.choice(cs)
            lst = getattr(node, field)
            n = len(lst)
            pool = KINDS[kind][0]
            mode = rng.choice(['slice', 'slice', 'slice', 'one', 'del_one', 'insert', 'subview', 'subview'])
            lim = lead_limit(node, field)
            if lim is not None and mode == 'subview':
                mode = 'insert'
            op = {'k': 'c03', 'mode': mode, 'path': [list(p) for p in path], 'field': field, 'kind': kind}
            if mode == 'subview':
                op = self.gen_subview(rng, op, n, mn, pool, kind, tree)
                if op is None:
                    return None
            if mode == 'subview':
                pass
            elif mode == 'slice':
                a, b = O.gen_bounds(rng, n, cfg['wild'])
                ns = norm_slice(n, a, b)
                if ns is None:
                    return None
                k = rng.choice((0, 0, 1, 1, 2, 3))
                if n - (ns[1] - ns[0]) + k < mn:
                    k = mn - (n - (ns[1] - ns[0]))
                if kind == 'boolvalue' and k == 1 and False:
                    pass
                op.update(a=a, b=b, elems=[rng.choice(pool) for _ in range(k)], entry=rng.choice(SLICE_ENTRIES))
                if k and a == b and rng.random() < 0.4:
                    op['entry'] = rng.choice(['insert', 'extend', 'prextend', 'view_insert'])
            elif mode == 'one':
                if n == 0:
                    return None
                el = rng.choice(pool)
                if kind == 'stmt' and len(ast.parse(el).body) != 1:
                    el = 'pass'
                op.update(idx=O.gen_index(rng, n, 0.0), elems=[el], entry=rng.choice(ONE_ENTRIES))
            elif mode == 'del_one':
                if n == 0 or n - 1 < mn:
                    return None
                op.update(idx=O.gen_index(rng, n, 0.0), entry=rng.choice(DEL_ENTRIES))
            else:
                el = rng.choice(pool)
                if kind == 'stmt' and len(ast.parse(el).body) != 1:
                    el = 'pass'
                op.update(idx=O.gen_index(rng, n + 1, cfg['wild']), elems=[el],
                          entry=rng.choice(['insert', 'view_insert', 'append', 'prepend']))
            if lim is not None:  # the request must stay inside the leading positional arguments
                if mode == 'slice':
                    ns_ = norm_slice(n, op['a'], op['b'])
                    if ns_ is None or ns_[1] > lim or not (ns_[0] < lim or lim == n):
                        return None
                elif mode in ('one', 'del_one'):
                    i_ = op['idx'] if op['idx'] >= 0 else op['idx'] + n
                    if not 0 <= i_ < lim:
                        return None
                elif mode == 'insert':
                    if op['entry'] == 'append':
                        if lim != n:
                            return None
                    elif op['entry'] != 'prepend':
                        ns_ = norm_slice(n, op['idx'], op['idx'])
                        if ns_ is None or not (ns_[0] < lim or lim == n):
                            return None
            if kind == 'stmt' and rng.random() < 0.3:
                op['opts'] = O.enc_opts(O.gen_options(rng, 1.0, ('trivia', 'pep8space', 'elif_', 'docstr')))
        # forks through the other entry points and the layout twin
        if rng.random() < cfg['p_fork']:
            op['forks'] = True
        if rng.random() < cfg['p_twin']:
            tw = progen.relayout(rng, run.root.src, 6)
            if tw != run.root.src:
                op['twin'] = tw
        return op

    def gen_subview(self, rng, op, n, mn, pool, kind, tree):
        """An operation on a SUB-VIEW `node.field[s:e]` (non-trivial start/stop, indices relative to the view)."""
        def bound(lo):
            r = rng.random()
            if r < 0.12:
                return None
            if r < 0.3 and n:
                return rng.randrange(-n, 0)
            return rng.randrange(lo, n + 1)
        s_, e_ = bound(0), bound(0)
        ns = norm_slice(n, 0 if s_ is None else s_, e_)
        if ns is None:
            s_, e_ = e_, s_
            ns = norm_slice(n, 0 if s_ is None else s_, e_)
            if ns is None:
                return None
        m = ns[1] - ns[0]
        single_only = KINDS[kind][2] is None

        def el():
            e = rng.choice(pool)
            if kind == 'stmt' and len(ast.parse(e).body) != 1:
                e = 'pass'
            return e

        def spec(m):
            vop = rng.choice(['insert', 'insert', 'insert', 'append', 'prepend', 'extend', 'prextend', 'setitem', 'delitem',
                              'setitem_none', 'setslice', 'delslice', 'replace', 'remove'])
            sp = {'vop': vop}
            if vop == 'insert':
                sp.update(idx=O.gen_index(rng, m + 1, 0.45), elems=[el()])
            elif vop in ('append', 'prepend'):
                sp.update(elems=[el()])
            elif vop in ('extend', 'prextend'):
                sp.update(elems=[el() for _ in range(1 if single_only else rng.choice((1, 2, 3)))])
            elif vop in ('setitem', 'delitem', 'setitem_none'):
                if m == 0 and rng.random() < 0.8:
                    return None
                i = O.gen_index(rng, m, 0.1)
                if i == 'end':
                    i = m
                sp.update(idx=i)
                if vop == 'setitem':
                    sp.update(elems=[el()])
            elif vop in ('setslice', 'delslice'):
                a, b = O.gen_bounds(rng, m, 0.3)
                b = None if b == 'end' else b
                if a == 'end':
                    return None
                sp.update(a=a, b=b)
                if vop == 'setslice':
                    sp.update(elems=[el() for _ in range(1 if single_only else rng.choice((1, 1, 2, 3)))])
            elif vop == 'replace':
                sp.update(elems=[el() for _ in range(1 if single_only else rng.choice((1, 2, 3)))])
            return sp

        sp1 = spec(m)
        if sp1 is None:
            return None
        op.update(sp1, s=s_, e=e_, entry='subview_' + sp1['vop'])
        probe = list(range(m))
        try:
            ok1 = self.apply_vspec(probe, sp1, [None] * len(sp1.get('elems', ())))
        except Exception:
            ok1 = None
        if ok1 is True and n - m + len(probe) < mn:
            return None
        if rng.random() < 0.4:  # a follow-up operation through the SAME view object (which must have tracked the first)
            sub = list(range(m))
            try:
                r = self.apply_vspec(sub, sp1, [None] * len(sp1.get('elems', ())))
            except Exception:
                r = None
            if r is True and n - m + len(sub) >= mn:  # the intermediate state must be a legal container too
                sp2 = spec(len(sub))
                if sp2 is not None:
                    op['then'] = sp2
                    op['entry'] += '+' + sp2['vop']
        exp = self.expected(tree, op)
        if exp is None:
            return None
        if exp != 'IndexError':
            node = resolve(exp, [tuple(p) for p in op['path']])
            if len(getattr(node, op['field'])) < mn:
                return None
        return op

    # -- model --------------------------------------------------------------------------------------------------------

    @staticmethod
    def apply_vspec(sub, spec, new):
        """Apply one view operation to the window list `sub` in place.  True / None (not vetted) / 'IndexError'."""
        m = len(sub)
        vop = spec['vop']
        if vop == 'insert':
            if spec['idx'] == 'end':
                sub.extend(new)
            else:
                if len(new) != 1:
                    return None
                sub[spec['idx']:spec['idx']] = new
        elif vop in ('append', 'extend'):
            sub.extend(new)
        elif vop in ('prepend', 'prextend'):
            sub[0:0] = new
        elif vop in ('setitem', 'delitem', 'setitem_none'):
            i = spec['idx']
            if not -m <= i < m:
                return 'IndexError'
            if vop == 'setitem':
                if len(new) != 1:
                    return None
                sub[i] = new[0]
            else:
                del sub[i]
        elif vop in ('setslice', 'delslice'):
            ns2 = norm_slice(m, 0 if spec['a'] is None else spec['a'], spec['b'])
            if ns2 is None:
                return None
            sub[ns2[0]:ns2[1]] = new
        elif vop == 'replace':
            sub[:] = new
        elif vop == 'remove':
            sub[:] = []
        else:
            return None
        return True

    def expected(self, tree, op):
        """Expected pure AST after op, or 'IndexError' / None (= not vetted after all)."""
        exp = copy.deepcopy(tree)
        node = resolve(exp, [tuple(p) for p in op['path']])
        if node is None:
            return None
        mode = op['mode']
        field = op['field']
        if mode in ('opt_put', 'opt_del'):
            if not hasattr(node, field):
                return None
            if mode == 'opt_del':
                setattr(node, field, None)
            else:
                t = op['elems'][0]
                new = _e(t)
                if isinstance(node, ast.withitem):
                    new = ast.parse(f'with a as {t}: pass').body[0].items[0].optional_vars
                setattr(node, field, new)
            return exp
        if mode == 'virt':
            return self.expected_virt(exp, node, op)
        lst = getattr(node, field, None)
        if not isinstance(lst, list):
            return None
        n = len(lst)
        parse = KINDS[op['kind']][1]
        new = []
        for t in op.get('elems', ()):
            x = parse(t)
            if x is None:
                return None
            if isinstance(x, list):
                new.extend(x)
            else:
                new.append(x)
        if mode == 'slice':
            ns = norm_slice(n, op['a'], op['b'])
            if ns is None:
                return None
            lst[ns[0]:ns[1]] = new
        elif mode == 'one':
            idx = op['idx']
            if not -n <= idx < n:
                return 'IndexError'
            if len(new) != 1:
                return None
            lst[idx] = new[0]
        elif mode == 'del_one':
            idx = op['idx']
            if not -n <= idx < n:
                return 'IndexError'
            del lst[idx]
        elif mode == 'subview':
            ns = norm_slice(n, 0 if op['s'] is None else op['s'], op['e'])
            if ns is None:
                return None
            sub = lst[ns[0]:ns[1]]   # the window; the view object keeps tracking it across its own operations
            r = self.apply_vspec(sub, op, new)
            if r is not True:
                return r
            if op.get('then'):
                new2 = []
                for t in op['then'].get('elems', ()):
                    x = parse(t)
                    if x is None:
                        return None
                    new2.extend(x) if isinstance(x, list) else new2.append(x)
                r = self.apply_vspec(sub, op['then'], new2)
                if r is not True:
                    return r
            lst[ns[0]:ns[1]] = sub
        elif mode == 'insert':
            idx = op['idx']
            e = op['entry']
            if e == 'append':
                lst.extend(new)
            elif e == 'prepend':
                lst[0:0] = new
            else:
                ns = norm_slice(n, idx, idx)
                lst[ns[0]:ns[0]] = new
        if op.get('kind') == 'store_elt' and sum(isinstance(x, ast.Starred) for x in lst) > 1:
            return None  # two starred targets: not valid Python
        return exp

    # -- application through an entry point ---------------------------------------------------------------------------

    def code_for(self, op):
        kind = op.get('kind')
        elems = op.get('elems') or []
        if not elems:
            return None
        if op['mode'] in ('opt_put',):
            return elems[0]
        sep = KINDS[kind][2]
        if kind == 'decorator' and (len(elems) > 1 or op['mode'] == 'slice' or op.get('vop') in ('extend', 'prextend', 'setslice', 'replace')):
            return '\n'.join('@' + e for e in elems)
        if kind == 'assign_target' and len(elems) > 1:
            return ' = '.join(elems) + ' ='
        if len(elems) == 1:
            return elems[0]
        if sep is None:
            return None
        return sep.join(elems)

    @staticmethod
    def do_vspec(v, sp, code, opts):
        vop = sp['vop']
        if vop == 'insert':
            return v.insert(code, sp['idx'], **opts)
        if vop == 'append':
            return v.append(code, **opts)
        if vop == 'prepend':
            return v.prepend(code, **opts)
        if vop == 'extend':
            return v.extend(code, **opts)
        if vop == 'prextend':
            return v.prextend(code, **opts)
        if vop == 'setitem':
            v[sp['idx']] = code
            return None
        if vop == 'setitem_none':
            v[sp['idx']] = None
            return None
        if vop == 'delitem':
            del v[sp['idx']]
            return None
        if vop == 'setslice':
            v[sp['a']:sp['b']] = code
            return None
        if vop == 'delslice':
            del v[sp['a']:sp['b']]
            return None
        if vop == 'replace':
            return v.replace(code, one=False, **opts)
        if vop == 'remove':
            return v.remove(**opts)
        raise O.Skip('vop ' + vop)

    def do(self, root, op, entry):
        """Perform the request on `root` through `entry`.  Raises Skip if the entry point cannot express it."""
        f = O.resolve_f(root, op['path'])
        field = op['field']
        mode = op['mode']
        opts = O.dec_opts(op.get('opts'))
        if mode == 'virt':
            return self.do_virt(f, op, opts)
        code = self.code_for(op)
        elems = op.get('elems') or []
        kind = op.get('kind')
        multi_nosep = len(elems) > 1 and KINDS[kind][2] is None
        if multi_nosep:
            # no source form for a slice of these: do it one by one through insert (still list semantics)
            raise O.Skip('nosep')

        def b(i):
            return None if i == 'end' else i

        if mode == 'slice':
            a, bb = op['a'], op['b']
            if entry == 'put_slice':
                return f.put_slice(code, a, bb, field, **opts)
            if entry == 'put':
                return f.put(code, a, bb, field, one=False, **opts)
            if entry == 'view':
                if opts:
                    raise O.Skip('view takes no options')
                v = getattr(f, field)
                if a == 'end':
                    raise O.Skip('view end')
                if code is None:
                    del v[a:b(bb)]
                else:
                    v[a:b(bb)] = code
                return None
            if entry == 'view_replace':
                v = getattr(f, field)
                if a == 'end':
                    raise O.Skip('view end')
                sub = v[a:b(bb)]
                if code is None:
                    return sub.remove(**opts)
                return sub.replace(code, one=False, **opts)
            if entry == 'insert':
                return f.insert(code, a, field, one=False, **opts)
            if entry == 'view_insert':
                if a == 'end':
                    return getattr(f, field).insert(code, 'end', one=False, **opts)
                return getattr(f, field).insert(code, a, one=False, **opts)
            if entry in ('extend', 'prextend'):
                n = len(getattr(f.a, field))
                ns = norm_slice(n, a, bb)
                if entry == 'extend' and ns[0] == n:
                    return f.extend(code, field, **opts)
                if entry == 'prextend' and ns[0] == 0:
                    return f.prextend(code, field, **opts)
                return f.put_slice(code, a, bb, field, **opts)
        elif mode == 'subview':
            v = getattr(f, field)[op['s']:op['e']]
            r = self.do_vspec(v, op, code, opts)
            if op.get('then'):
                sp2 = op['then']
                code2 = self.code_for(dict(op, elems=sp2.get('elems') or [], vop=sp2['vop']))
                if r is not None and hasattr(r, '_base_indices'):
                    v = r  # view methods return the (same) view
                r = self.do_vspec(v, sp2, code2, opts)
            return r
        elif mode == 'one':
            idx = op['idx']
            if entry == 'put':
                return f.put(code, idx, field=field, **opts)
            if entry == 'replace':
                lst = getattr(f.a, field)
                if not -len(lst) <= idx < len(lst):
                    raise IndexError('harness: no such child')
                ch = lst[idx]
                if isinstance(ch, str):
                    return f.put(code, idx, field=field, **opts)
                return ch.f.replace(code, **opts)
            if entry == 'view':
                if opts:
                    raise O.Skip('view takes no options')
                getattr(f, field)[idx] = code
                return None
            if entry == 'put_slice_one':
                n = len(getattr(f.a, field))
                if not -n <= idx < n:
                    raise IndexError('harness: out of range')
                i = idx % n
                return f.put_slice(code, i, i + 1, field, one=True, **opts)
        elif mode == 'del_one':
            idx = op['idx']
            lst = getattr(f.a, field)
            n = len(lst)
            if entry in ('remove', 'cut', 'replace_none'):
                if not -n <= idx < n:
                    raise IndexError('harness: no such child')
                ch = lst[idx]
                if isinstance(ch, str):
                    return f.put(None, idx, field=field, **opts)
                if entry == 'remove':
                    return ch.f.remove(**opts)
                if entry == 'cut':
                    return ch.f.cut(**opts)
                return ch.f.replace(None, **opts)
            if entry == 'put_none':
                return f.put(None, idx, field=field, **opts)
            if entry == 'view_del':
                if opts:
                    raise O.Skip('view takes no options')
                del getattr(f, field)[idx]
                return None
            if entry == 'put_slice_none':
                if not -n <= idx < n:
                    raise IndexError('harness: out of range')
                i = idx % n
                return f.put_slice(None, i, i + 1, field, **opts)
        elif mode == 'insert':
            idx = op['idx']
            if entry == 'insert':
                return f.insert(code, idx, field, **opts)
            if entry == 'view_insert':
                return getattr(f, field).insert(code, idx, **opts)
            if entry == 'append':
                return f.append(code, field, **opts)
            if entry == 'prepend':
                return f.prepend(code, field, **opts)
        elif mode == 'opt_put':
            if entry == 'put':
                return f.put(code, field=field, **opts)
            if entry == 'attr':
                setattr(f, field, code)
                return None
            if entry == 'replace':
                ch = getattr(f.a, field)
                if ch is None:
                    return f.put(code, field=field, **opts)
                return ch.f.replace(code, **opts)
        elif mode == 'opt_del':
            if entry == 'put_none':
                return f.put(None, field=field, **opts)
            if entry == 'attr_del':
                delattr(f, field)
                return None
            if entry == 'attr_none':
                setattr(f, field, None)
                return None
            if entry == 'remove':
                ch = getattr(f.a, field)
                if ch is None:
                    return f.put(None, field=field, **opts)
                return ch.f.remove(**opts)
        raise O.Skip('entry ' + entry)

    def entries_for(self, op):
        mode = op['mode']
        if mode == 'slice':
            e = list(SLICE_ENTRIES)
            if op.get('elems') and op['a'] == op['b']:
                e += ['insert', 'view_insert', 'extend', 'prextend']
            return e
        return {'one': ONE_ENTRIES, 'del_one': DEL_ENTRIES, 'insert': [op['entry']], 'subview': [op['entry']], 'virt': [op['entry']], 'opt_put': OPT_PUT_ENTRIES,
                'opt_del': OPT_DEL_ENTRIES}[mode]

    # -- run hooks ----------------------------------------------------------------------------------------------------

    def pre_op(self, op):
        run = self.run
        if op.get('k') != 'c03':
            return None
        tree = run.root.a
        exp = self.expected(tree, op)
        return {'exp': exp, 'src': run.root.src}

    def apply(self, op):
        if op.get('k') != 'c03':
            return super().apply(op)
        return self.do(self.run.root, op, op['entry'])

    def judge(self, what, exp, root, exc, op):
        """Compare one outcome with the model."""
        run = self.run
        if exp is None:
            return
        if exp == 'IndexError':
            if exc is None:
                raise Violation('out_of_range_index_accepted', f'{what}: expected IndexError like a Python list')
            if not isinstance(exc, IndexError):
                raise Violation('out_of_range_index_wrong_exception', f'{what}: {O.exc_repr(exc)}')
            return
        if exc is not None:
            if isinstance(exc, NotImplementedError) or 'not implemented' in str(exc).lower():
                run.stats['refused_not_implemented'] += 1
                return
            raise Violation('refused_valid_request', f'{what}: {O.exc_repr(exc)}')
        got = ddump(root.a)
        want = ddump(exp)
        if got != want:
            from .editsim import _first_diff
            raise Violation('result_differs_from_list_model', f'{what}: ' + _first_diff(want, got).replace('parsed:', 'model:'))

    def extra_sig(self):
        return {'predicates': sorted(getattr(self, 'last_P', ()))}

    def post_op(self, op, ctx, out):
        import fst
        run = self.run
        self.last_P = set()
        if op.get('k') != 'c03' or ctx is None:
            return
        if out[0] == 'skip':
            return
        exp = ctx['exp']
        if exp is None:
            run.stats['not_vetted_after_all'] += 1
            if out[0] == 'ok':
                run.core_after_ok(False)
            return
        exc = out[1] if out[0] == 'exc' else None
        run.stats['vetted_requests'] += 1
        run.stats['entry_' + op['entry']] += 1
        self.judge(f'entry={op["entry"]}', exp, run.root, exc, op)
        if out[0] == 'ok':
            run.core_after_ok(False)
        elif check_consistent(run.root) is not None or modifying_registry():
            run.stats['collateral_c12'] += 1
            raise StopRun()
        # forks: same request through every other equivalent entry point on a fresh tree of the pre-state
        if op.get('forks'):
            for entry in self.entries_for(op):
                if entry == op['entry']:
                    continue
                fork = fst.FST(ctx['src'], 'exec')
                e2 = None
                try:
                    self.do(fork, op, entry)
                except O.Skip:
                    continue
                except Exception as e:
                    e2 = e
                run.stats['fork_requests'] += 1
                run.stats['entry_' + entry] += 1
                self.judge(f'entry={entry} (fork; main entry {op["entry"]})', exp, fork, e2, op)
        if op.get('twin'):
            from .editsim import _continuation_lines
            self.last_P = {'twin_has_line_continuation'} if _continuation_lines(op['twin']) else set()
            twin = fst.FST(op['twin'], 'exec')
            if sdump(twin.a) == sdump(ast.parse(ctx['src'])):
                e2 = None
                try:
                    self.do(twin, op, op['entry'])
                except O.Skip:
                    return
                except Exception as e:
                    e2 = e
                run.stats['twin_requests'] += 1
                self.judge('layout twin', exp, twin, e2, op)


# ======================================================================================================================
# virtual combined fields (_args, _bases, _attrs, Dict._all, _body): the model is the merged, source-ordered item list

VIRT_POS = {'call': ['x', 'f(y)', '1', 'x.y', '[x]', '*s', '*t.u'], 'pattern': ['x', '1', '[x, y]', 'C()', '"s"']}
VIRT_KW = {'call': ['k=1', 'z=w', 'kk=f(y)', '**d', 'k2=v'], 'pattern': ['c=d', 'k=1', 'kk=[x]']}
DICT_ITEMS = ['k: v', '1: x', '"s": f(y)', '**d', 'x.y: z']


def virt_containers(tree):
    """[(path, node, field, flavour)] vetted virtual containers."""
    out = []
    in_fstr = set()
    for n in ast.walk(tree):
        if isinstance(n, ast.JoinedStr):
            for m in ast.walk(n):
                in_fstr.add(id(m))
    for path, node, parent, field, idx in iter_paths(tree):
        if id(node) in in_fstr:
            continue
        if isinstance(node, ast.Call) and not any(isinstance(a, ast.GeneratorExp) for a in node.args):
            out.append((path, node, '_args', 'call'))
        elif isinstance(node, ast.ClassDef):
            out.append((path, node, '_bases', 'call'))
        elif isinstance(node, ast.MatchClass):
            out.append((path, node, '_attrs', 'pattern'))
        elif isinstance(node, ast.Dict):
            out.append((path, node, '_all', 'dict'))
    return out


def virt_items(node, field):
    """Merged item list of a virtual field in source order: ('pos', node) | ('kw', name, node) | ('pair', k, v) | ('unpack', v)."""
    if field in ('_args', '_bases'):
        pos = node.args if field == '_args' else node.bases
        items = [('pos', a) for a in pos] + [('kw', k.arg, k.value) for k in node.keywords]
        key = {id(a): (a.lineno, a.col_offset) for a in pos}
        key.update({id(k.value): (k.lineno, k.col_offset) for k in node.keywords})
        return sorted(items, key=lambda it: key[id(it[-1])])
    if field == '_attrs':
        return [('pos', p) for p in node.patterns] + [('kw', a, p) for a, p in zip(node.kwd_attrs, node.kwd_patterns)]
    if field == '_all':
        return [('unpack', v) if k is None else ('pair', k, v) for k, v in zip(node.keys, node.values)]
    raise KeyError(field)


def virt_parse(flavour, text):
    if flavour == 'dict':
        d = ast.parse('{' + text + '}', mode='eval').body
        return ('unpack', d.values[0]) if d.keys[0] is None else ('pair', d.keys[0], d.values[0])
    if flavour == 'call':
        c = ast.parse('f(' + text + ')', mode='eval').body
        return ('kw', c.keywords[0].arg, c.keywords[0].value) if c.keywords else ('pos', c.args[0])
    m = O.harness_ast('pattern', 'C(' + text + ')')
    return ('kw', m.kwd_attrs[0], m.kwd_patterns[0]) if m.kwd_attrs else ('pos', m.patterns[0])


def virt_store(node, field, items):
    if field in ('_args', '_bases'):
        setattr(node, 'args' if field == '_args' else 'bases', [it[1] for it in items if it[0] == 'pos'])
        node.keywords = [ast.keyword(arg=it[1], value=it[2]) for it in items if it[0] == 'kw']
    elif field == '_attrs':
        node.patterns = [it[1] for it in items if it[0] == 'pos']
        node.kwd_attrs = [it[1] for it in items if it[0] == 'kw']
        node.kwd_patterns = [it[2] for it in items if it[0] == 'kw']
    else:
        node.keys = [None if it[0] == 'unpack' else it[1] for it in items]
        node.values = [it[-1] for it in items]


def virt_valid(field, items):
    """Python's own ordering rules for arguments / bases / class-pattern arguments: a plain positional item may not
    follow any keyword item, a '*x' item may follow 'k=v' items but not a '**d' item, keyword names are unique."""
    if field == '_all':
        return True
    seen_kw = seen_dstar = False
    names = set()
    for it in items:
        if it[0] == 'kw':
            seen_kw = True
            if it[1] is None:
                seen_dstar = True
            elif it[1] in names:
                return False
            names.add(it[1])
        elif isinstance(it[1], ast.Starred):
            if seen_dstar:
                return False
        elif seen_kw:
            return False
    return True


VIRT_ENTRIES = ['put_slice', 'attr', 'view_setslice', 'view_delslice', 'insert', 'append', 'put_none']


class _VirtMixin:
    def gen_virt(self, rng):
        tree = self.run.root.a
        cs = virt_containers(tree)
        if not cs:
            return None
        if self.run.cfg.get('focus_cls') and rng.random() < 0.7:
            cs = [c for c in cs if c[1].__class__.__name__ == self.run.cfg['focus_cls']] or cs
        path, node, field, flavour = rng.choice(cs)
        items = virt_items(node, field)
        n = len(items)
        if not virt_valid(field, items):
            return None
        a = rng.randint(0, n)
        b = rng.randint(a, n)
        k = rng.choice((0, 1, 1, 2, 3))
        elems = []
        for _ in range(k):
            if flavour == 'dict':
                elems.append(rng.choice(DICT_ITEMS))
            else:
                elems.append(rng.choice(VIRT_KW[flavour] if rng.random() < 0.4 else VIRT_POS[flavour]))
        entry = rng.choice(VIRT_ENTRIES)
        if entry == 'attr':
            a, b = 0, n
        elif entry == 'view_delslice' or entry == 'put_none':
            elems = []
        elif entry == 'insert':
            b = a
            elems = elems[:1] or [rng.choice(VIRT_POS.get(flavour, DICT_ITEMS))]
        elif entry == 'append':
            a = b = n
            elems = elems[:1] or [rng.choice(VIRT_KW.get(flavour, DICT_ITEMS))]
        if not elems and a == b:
            return None
        op = {'k': 'c03', 'mode': 'virt', 'path': [list(p) for p in path], 'field': field, 'flavour': flavour, 'a': a, 'b': b,
              'elems': elems, 'entry': 'virt_' + entry}
        exp = self.expected(tree, op)
        if exp is None:
            return None
        return op

    def expected_virt(self, exp, node, op):
        items = virt_items(node, op['field'])
        try:
            new = [virt_parse(op['flavour'], t) for t in op['elems']]
        except Exception:
            return None
        items[op['a']:op['b']] = new
        if not virt_valid(op['field'], items):
            return None
        if op['field'] == '_attrs' or op['flavour'] == 'pattern':
            pass
        if op['field'] in ('_args', '_bases') and len({it[1] for it in items if it[0] == 'kw' and it[1]}) != sum(1 for it in items if it[0] == 'kw' and it[1]):
            return None
        virt_store(node, op['field'], items)
        return exp

    def do_virt(self, f, op, opts):
        field, a, b = op['field'], op['a'], op['b']
        code = ', '.join(op['elems']) if op['elems'] else None
        e = op['entry'][5:]
        n = len(virt_items(f.a, field))
        if e == 'put_slice':
            return f.put_slice(code, a, b, field, **opts)
        if e == 'put_none':
            return f.put_slice(None, a, b, field, **opts)
        if e == 'attr':
            if code is None:
                delattr(f, field)
            else:
                setattr(f, field, code)
            return None
        if e == 'view_setslice':
            if code is None:
                del getattr(f, field)[a:b]
            else:
                getattr(f, field)[a:b] = code
            return None
        if e == 'view_delslice':
            del getattr(f, field)[a:b]
            return None
        if e == 'insert':
            return getattr(f, field).insert(code, a, **opts) if a < n else f.insert(code, 'end', field, **opts)
        if e == 'append':
            return f.append(code, field, **opts)
        raise O.Skip('entry')


for _name in ('gen_virt', 'expected_virt', 'do_virt'):
    setattr(C03, _name, getattr(_VirtMixin, _name))
