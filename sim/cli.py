"""Command line driver: `check.py <Cxx> --tier quick|thorough`, `--replay <file>`, `--digest i,j,k`, `selftest`."""

import argparse
import copy
import importlib
import json
import os
import signal
import subprocess
import sys
import time

from . import core
from .specs import SPECS


def _engine(spec):
    return importlib.import_module(spec['mod'])


def replay_case(spec, case, timeout=core.RUN_TIMEOUT_S):
    """Replay in-process with a timeout.  Returns result dict."""
    mod = _engine(spec)
    old = signal.signal(signal.SIGALRM, core._alarm)
    signal.alarm(timeout)
    try:
        return mod.engine_replay(case)
    except core.RunTimeout:
        return {'violation': {'kind': 'timeout', 'step': -1, 'detail': 'replay timed out'} if spec.get('timeout_is_violation') else None,
                'timeout': True}
    finally:
        signal.alarm(0)
        signal.signal(signal.SIGALRM, old)


def minimise(spec, case):
    """Shrink a failing case while the same violation kind persists."""
    kind = case['violation']['kind']
    mod = _engine(spec)

    def fails(c):
        try:
            r = replay_case(spec, c, timeout=20)
        except Exception:
            return False
        v = r.get('violation')
        return bool(v) and v['kind'] == kind

    if hasattr(mod, 'minimise'):
        case = mod.minimise(case, fails)
    else:
        case = generic_minimise(case, fails)
    r = replay_case(spec, case)
    if r.get('violation'):
        case = dict(case, violation=r['violation'])
    return case


def generic_minimise(case, fails):
    base = copy.deepcopy(case)
    if not fails(base):
        return case  # not reproducible in-process as is; leave alone (the fresh-interpreter check decides)
    # truncate after the violating step
    step = case['violation'].get('step')
    if isinstance(step, int) and 0 <= step < len(base['ops']) - 1:
        c = dict(base, ops=base['ops'][:step + 1])
        if fails(c):
            base = c

    def test(ops):
        return fails(dict(base, ops=ops))

    ops = core.ddmin(list(base['ops']), test, max_tests=150)
    base = dict(base, ops=ops)
    # drop options from ops
    for i, op in enumerate(list(base['ops'])):
        if op.get('opts') and not op.get('rawput'):
            ops2 = copy.deepcopy(base['ops'])
            ops2[i]['opts'] = {}
            if fails(dict(base, ops=ops2)):
                base = dict(base, ops=ops2)
            else:
                for k in list(op['opts']):
                    ops2 = copy.deepcopy(base['ops'])
                    ops2[i]['opts'].pop(k, None)
                    if fails(dict(base, ops=ops2)):
                        base = dict(base, ops=ops2)
    # simplify code form
    for i, op in enumerate(list(base['ops'])):
        code = op.get('code')
        if code and code.get('form') in ('ast', 'fst'):
            ops2 = copy.deepcopy(base['ops'])
            ops2[i]['code']['form'] = 'src'
            ops2[i]['code'].pop('mode', None)
            if fails(dict(base, ops=ops2)):
                base = dict(base, ops=ops2)
    base = shrink_program(base, fails)
    return base


def shrink_program(case, fails):
    """Remove top-level statements that no op addresses (paths are renumbered)."""
    import ast
    try:
        tree = ast.parse(case['program'])
    except SyntaxError:
        return case
    if any(not op.get('path') for op in case['ops']) or case.get('no_program_shrink'):
        return case
    lines = case['program'].split('\n')
    n = len(tree.body)
    for j in range(n - 1, -1, -1):
        used = any(op['path'][0][0] == 'body' and op['path'][0][1] == j for op in case['ops'])
        if used:
            continue
        st = tree.body[j]
        start = (st.decorator_list[0].lineno if getattr(st, 'decorator_list', None) else st.lineno) - 1
        end = st.end_lineno
        if j + 1 < len(tree.body):
            nxt = tree.body[j + 1]
            nstart = (nxt.decorator_list[0].lineno if getattr(nxt, 'decorator_list', None) else nxt.lineno) - 1
            if nstart < end:  # shares a line (semicolons)
                continue
        if j > 0 and tree.body[j - 1].end_lineno - 1 >= start:
            continue
        new_lines = lines[:start] + lines[end:]
        new_prog = '\n'.join(new_lines)
        try:
            new_tree = ast.parse(new_prog)
        except SyntaxError:
            continue
        ops2 = copy.deepcopy(case['ops'])
        for op in ops2:
            if op['path'][0][0] == 'body' and op['path'][0][1] > j:
                op['path'][0][1] -= 1
        c = dict(case, program=new_prog, ops=ops2)
        if fails(c):
            case, lines, tree = c, new_lines, new_tree
    return case


def signature(spec, case):
    mod = _engine(spec)
    if hasattr(mod, 'signature'):
        return mod.signature(case)
    return generic_signature(case)


def generic_signature(case):
    v = case.get('violation') or {}
    op = v.get('op') or {}
    site = v.get('site') or {}
    sig = {'kind': v.get('kind'), 'op': op.get('k'), 'field': op.get('field'), 'target': site.get('target'),
           'parent': site.get('parent'), 'pfield': site.get('pfield'), 'code': site.get('code'),
           'form': (op.get('code') or {}).get('form')}
    for p in v.get('predicates') or ():
        sig['P:' + p] = True
    for p in site.get('flags') or ():
        sig['F:' + p] = True
    return sig


# ----------------------------------------------------------------------------------------------------------------------

def cmd_replay(prop, path):
    spec = SPECS[prop]
    case = core.load_replay(path)
    r = replay_case(spec, case)
    v = r.get('violation')
    want = (case.get('violation') or {}).get('kind')
    if v and (want is None or v['kind'] == want):
        print(f'VIOLATION property={prop} replay={path}')
        print(json.dumps(v, indent=1, default=repr, ensure_ascii=True)[:3000])
        return 1
    print(f'replay of {path}: no violation' + (f' (other kind {v["kind"]})' if v else ''))
    return 0


def cmd_digest(prop, idxs, verif_seed, workers=None):
    spec = SPECS[prop]
    mod = _engine(spec)
    out = {}
    if workers and workers > 1:  # self-test: same indices through the forked pool at a given worker count
        assert idxs == list(range(len(idxs)))
        results, _ = core.run_batch(spec['mod'], 'engine_run', prop, verif_seed, spec['engine'], len(idxs),
                                    workers=workers, extra=spec.get('extra'), stop_on_violations=10**9)
        out = {str(r['i']): r['digest'] for r in results}
    else:
        for i in idxs:
            r = core.run_one(mod.engine_run, prop, verif_seed, spec['engine'], i, extra=spec.get('extra'))
            out[str(i)] = r['digest']
    print('DIGESTS ' + json.dumps(out, sort_keys=True))
    return 0


def determinism_sample(prop, spec, verif_seed, results, k):
    """Re-run k run indices in a fresh interpreter under another PYTHONHASHSEED, single process; compare digests."""
    idxs = [r['i'] for r in results if not r.get('timeout') and not r.get('error')]
    if not idxs:
        return 0, []
    step = max(1, len(idxs) // k)
    pick = idxs[::step][:k]
    env = dict(os.environ, PYTHONHASHSEED='12345', PYTHONDONTWRITEBYTECODE='1', PFST_VERIF_CHILD='1',
               VERIF_SEED=str(verif_seed))
    p = subprocess.run([sys.executable, os.path.join(core.VERIF, 'check.py'), prop, '--digest', ','.join(map(str, pick))],
                       capture_output=True, text=True, timeout=600, env=env, cwd=core.VERIF)
    line = [ln for ln in p.stdout.splitlines() if ln.startswith('DIGESTS ')]
    if p.returncode != 0 or not line:
        raise core.HarnessError('determinism child failed: ' + p.stdout[-500:] + p.stderr[-2000:])
    got = json.loads(line[0][8:])
    by_i = {r['i']: r['digest'] for r in results}
    bad = [i for i in pick if got[str(i)] != by_i[i]]
    return len(pick), bad


def cmd_check(prop, tier, verif_seed, runs=None, workers=None):
    spec = SPECS[prop]
    t0 = time.time()
    n_runs = runs or int(os.environ.get('VERIF_RUNS', 0)) or spec[tier]
    print(f'VERIF_SEED={verif_seed} property={prop} engine={spec["engine"]} tier={tier} runs={n_runs}', flush=True)
    known = [k for k in core.load_known() if k.get('property') == prop]
    exit_code = 0
    violations = 0
    viol_lines = []

    # 1. canonical replays of listed findings
    for k in known:
        path = os.path.join(core.VERIF, k['replay'])
        case = core.load_replay(path)
        r = replay_case(spec, case)
        rep = bool(r.get('violation')) and r['violation']['kind'] == (case.get('violation') or {}).get('kind', r['violation']['kind'])
        if k.get('status') == 'open':
            if rep:
                print(f'KNOWN-FINDING: property={prop} {k["id"]}: {k["what"]}')
            else:
                print(f'note: listed finding {k["id"]} no longer reproduces on this tree')
        else:  # fixed: regression case, must pass
            if rep:
                violations += 1
                viol_lines.append(f'VIOLATION property={prop} replay={path}')
                print(viol_lines[-1])
                print(f'  (regression of fixed finding {k["id"]}: {k["what"]})')

    # 2. exploration
    def counts(r):  # violations covered by a listed finding do not count towards the early-stop limit
        case = dict(r['case'], property=prop)
        return core.match_known(prop, signature(spec, case), known) is None

    results, truncated = core.run_batch(spec['mod'], 'engine_run', prop, verif_seed, spec['engine'], n_runs,
                                        workers=workers, wall_cap_s=spec.get('wall_cap', {}).get(tier),
                                        sample_idx=(0, 1, 2), extra=spec.get('extra'), counts=counts)
    errors = [r for r in results if r.get('error')]
    timeouts = [r for r in results if r.get('timeout')]
    if errors:
        print('HARNESS ERROR in run', errors[0]['i'], '\n', errors[0]['error'][-3000:])
        exit_code = 2
    if timeouts and not spec.get('timeout_is_violation'):
        print(f'HARNESS ERROR: {len(timeouts)} run(s) timed out, first index {timeouts[0]["i"]}')
        exit_code = 2

    # 3. violations: minimise, match known findings, verify in a fresh interpreter
    bad = [r for r in results if r.get('violation')]
    known_hits = {}
    seen_sigs = set()
    verified_sigs = set()
    unreproduced = {}
    budget = 12
    for r in bad:
        case = dict(r['case'], property=prop, verif_seed=verif_seed, index=r['i'])
        sig0 = signature(spec, case)
        k0 = core.match_known(prop, sig0, known)
        if k0 is not None:  # cheap path: already matches without shrinking
            known_hits[k0['id']] = known_hits.get(k0['id'], 0) + 1
            continue
        if budget <= 0:
            violations += 1
            continue
        budget -= 1
        try:
            case = minimise(spec, case)
        except Exception as e:
            print('note: minimisation failed:', repr(e))
        sig = signature(spec, case)
        k1 = core.match_known(prop, sig, known)
        if k1 is not None:
            known_hits[k1['id']] = known_hits.get(k1['id'], 0) + 1
            continue
        sigkey = json.dumps(sig, sort_keys=True, default=repr)
        violations += 1
        if sigkey in seen_sigs:
            continue
        seen_sigs.add(sigkey)
        case['signature'] = sig
        path = core.write_replay(case)
        ok, out = core.replay_in_fresh_interpreter(prop, path)
        if not ok:
            # the shrunk case depended on state left in THIS process by earlier replays (possible only when the library
            # leaks state between runs): fall back to the recorded, unshrunk run, which started in a clean worker state
            case = dict(r['case'], property=prop, verif_seed=verif_seed, index=r['i'], signature=sig0, unminimised=True)
            path = core.write_replay(case, tag='-full')
            ok, out = core.replay_in_fresh_interpreter(prop, path)
        if ok:
            viol_lines.append(f'VIOLATION property={prop} replay={path}')
            print(viol_lines[-1])
            print('  ' + json.dumps(case['violation'], default=repr, ensure_ascii=True)[:1500])
            verified_sigs.add(sigkey)
        else:
            # not reproducible on its own: when the library leaks state between the runs of one worker process, a run
            # can fail because of what an EARLIER run did.  Another run of the same class may carry the cause in its own
            # history, so the class stays open for the next candidates; it is a harness error only if none reproduces.
            seen_sigs.discard(sigkey)
            unreproduced.setdefault(sigkey, []).append((r['i'], path, out))
    for sigkey, lst in unreproduced.items():
        if sigkey in verified_sigs:
            print(f'  note: {len(lst)} other run(s) of this class failed only in the worker process that had executed earlier runs '
                  f'(state leaked between runs), e.g. run {lst[0][0]}')
        else:
            i_, path_, out_ = lst[0]
            print(f'HARNESS ERROR: violation in run {i_} did not reproduce from its replay file {path_}\n{out_[-1500:]}')
            exit_code = 2

    # 4. determinism sample
    det_n, det_bad = 0, []
    if exit_code != 2:
        try:
            det_n, det_bad = determinism_sample(prop, spec, verif_seed, results, spec.get('det_sample', 12))
        except Exception as e:
            print('HARNESS ERROR:', e)
            exit_code = 2
        if det_bad:
            print(f'HARNESS ERROR: nondeterministic runs (digest differs in fresh interpreter): {det_bad}')
            exit_code = 2

    # 5. evidence
    stats = core.merge_stats(results)
    tuples = set()
    shapes = set()
    digs = set()
    nontriv = set()
    for r in results:
        tuples.update(r.get('tuples') or ())
        shapes.update(r.get('shapes') or ())
        digs.add(r['digest'])
        if r.get('ok_steps', 0) > 0:
            nontriv.add(r['digest'])
    steps = sum(r.get('steps', 0) for r in results)
    wall = time.time() - t0
    samples = []
    for r in results:
        if r.get('case') and len(samples) < 3 and not r.get('violation'):
            c = r['case']
            samples.append({'index': r['i'], 'seed': r['seed'], 'program': c.get('program'), 'ops': c.get('ops'),
                            'schedule': c.get('schedule'), 'config': {k: v for k, v in (c.get('config') or {}).items() if k in ('n_steps', 'base_opts', 'unique')}})
    mod = _engine(spec)
    cov = {
        'evaluations': len(results),
        'distinct_nontrivial': len(nontriv),
        'rule': spec['rule'],
        'samples': samples or [{'note': 'no sample kept'}],
        'steps_total': steps,
        'simulated_time_steps': steps,
        'ok_steps': sum(r.get('ok_steps', 0) for r in results),
        'runs_per_hour': int(len(results) / max(wall, 1e-6) * 3600),
        'distinct_event_logs': len(digs),
        'distinct_op_tuples': len(tuples),
        'distinct_tree_shapes': len(shapes),
        'counters': stats,
        'fault_kinds_fired': {k[6:]: v for k, v in stats.items() if k.startswith('fault_')},
        'known_finding_hits': known_hits,
        'timeouts': len(timeouts),
        'truncated_by_wall_cap': truncated,
        'determinism_sample': {'reexecuted_in_fresh_interpreter': det_n, 'mismatches': len(det_bad)},
        'real_vs_stub': spec.get('real_vs_stub', 'all pfst code ran real (imported from /repo/src working tree); stubs: none'),
        'repo_rev': core.repo_rev()[0],
    }
    if hasattr(mod, 'extra_evidence'):
        cov.update(mod.extra_evidence(prop, results))
    core.write_evidence(prop, tier, verif_seed, spec['level'], cov, wall, violations, spec['assumptions'])
    print(f'runs={len(results)} steps={steps} distinct_logs={len(digs)} tuples={len(tuples)} shapes={len(shapes)} '
          f'violations={violations} known_hits={known_hits} wall={wall:.1f}s', flush=True)
    if exit_code == 2 and not viol_lines:  # a violation verified from its replay file in a fresh interpreter stands
        return 2
    if violations:
        if not viol_lines:
            print(f'VIOLATION property={prop} replay=none')
        return 1
    return 0


def cmd_triage(prop, verif_seed, runs, minimise_n=1):
    """Developer tool: run a batch, cluster violations by signature, print one (minimised) example per class."""
    spec = SPECS[prop]
    results, _ = core.run_batch(spec['mod'], 'engine_run', prop, verif_seed, spec['engine'], runs,
                                extra=spec.get('extra'), stop_on_violations=10**9)
    known = [k for k in core.load_known() if k.get('property') == prop]
    classes = {}
    for r in results:
        if r.get('error'):
            print('ERROR', r['i'], r['error'][-1500:])
        if r.get('timeout'):
            print('TIMEOUT', r['i'])
        if r.get('violation'):
            case = dict(r['case'], property=prop, verif_seed=verif_seed, index=r['i'])
            sig = signature(spec, case)
            if core.match_known(prop, sig, known):
                sig = {'KNOWN': core.match_known(prop, sig, known)['id']}
            classes.setdefault(json.dumps(sig, sort_keys=True), []).append(case)
    print(f'runs={len(results)} violations={sum(len(v) for v in classes.values())} classes={len(classes)}')
    print('stats', json.dumps(core.merge_stats(results)))
    for k, cases in sorted(classes.items(), key=lambda kv: -len(kv[1])):
        print('=' * 100)
        print(len(cases), k)
        if k.startswith('{"KNOWN"'):
            continue
        for case in cases[:minimise_n]:
            try:
                case = minimise(spec, case)
            except Exception as e:
                print('minimise failed', repr(e))
            print('--- index', case['index'], 'program:')
            print(case['program'])
            for key in ('ops', 'rounds', 'others', 'threads'):
                if key in case:
                    print(f'--- {key}:', json.dumps(case[key], ensure_ascii=False))
            print('--- violation:', case['violation']['kind'], '|', case['violation']['detail'])
            if case.get('schedule'):
                print('--- schedule:', json.dumps(case['schedule'], ensure_ascii=False))
    return 0


def main(argv=None):
    ap = argparse.ArgumentParser()
    ap.add_argument('prop')
    ap.add_argument('--tier', default=os.environ.get('VERIF_TIER', 'quick'), choices=['quick', 'thorough'])
    ap.add_argument('--replay')
    ap.add_argument('--digest')
    ap.add_argument('--runs', type=int)
    ap.add_argument('--workers', type=int)
    ap.add_argument('--triage', type=int)
    ap.add_argument('what', nargs='*', help='selftest: determinism | sensitivity [ids/properties...]')
    a = ap.parse_args(argv)
    verif_seed = int(os.environ.get('VERIF_SEED', '0') or 0)
    if a.prop == 'selftest':
        from . import selftest
        return selftest.main(verif_seed, a.what, a.runs)
    if a.prop not in SPECS:
        print('unknown property', a.prop)
        return 2
    if a.replay:
        return cmd_replay(a.prop, a.replay)
    if a.triage:
        return cmd_triage(a.prop, verif_seed, a.triage)
    if a.digest:
        if '-' in a.digest:
            lo, hi = a.digest.split('-')
            idxs = list(range(int(lo), int(hi)))
        else:
            idxs = [int(x) for x in a.digest.split(',')]
        return cmd_digest(a.prop, idxs, verif_seed, a.workers)
    try:
        return cmd_check(a.prop, a.tier, verif_seed, a.runs, a.workers)
    except core.HarnessError as e:
        print('HARNESS ERROR:', e)
        return 2
